#!/usr/bin/env python3
"""Regenerates MANIFEST.json from the table below (python3 tools_manifest.py)."""
import json, os, subprocess, sys

HERE = os.path.dirname(os.path.abspath(__file__))

E1 = "E1 small-scope enumerator"
E2 = "E2 choice-point explorer"
E3 = "E3 explicit-state search over histories"
E4 = "E4 schedule explorer"
E5 = "E5 crash-point and fault enumerator"
PURE = "Pure-Python fastavro only (Cython is not installed, .pyx mirrors cannot be rebuilt); reference model in mc/ref is the trusted base."
CHECKS = {
    "C01": dict(engine=E1, category="exploration", design_ref="DESIGN.md 4/C01",
        technique="bounded exhaustive enumeration: schema family x deviation-bounded data D_k, round trip compared bit-exactly with a reference normalisation",
        text="Every schema of the stated family (raw and pre-parsed) times the complete deviation-bounded datum set D_k is written, read back, compared bit-exactly with the reference normalisation, stream position and back-to-back reads included. Exhaustive within the alphabets and the bound k reported per schema; nothing is sampled.",
        note=PURE),
    "C02": dict(engine=E1, category="exploration", design_ref="DESIGN.md 4/C02",
        technique="bounded exhaustive enumeration against an independently written Avro binary encoder/decoder, byte for byte",
        text="Same case space as C01; the bytes are decoded by an independent decoder, every union index must select a conforming branch and the independent encoder must reproduce the bytes exactly, which a symmetric writer/reader error cannot pass.",
        note=PURE),
    "C03": dict(engine=E1 + " + " + E2, category="exploration", design_ref="DESIGN.md 4/C03",
        technique="exhaustive enumeration of every block layout (odometer over the independent encoder's choice points), every out-of-range index at every index position, every proper prefix",
        text="For every schema and D_1 datum with small collections, every composition of each array/map into positive/negative-count blocks is decoded on the read and the skip path; every out-of-range index at every union/enum position and every proper prefix must raise. Exhaustive within collection size and the index alphabet.",
        note=PURE),
    "C04": dict(engine=E1, category="exploration", design_ref="DESIGN.md 4/C04",
        technique="bounded exhaustive enumeration of schema kind x record list x codec x every sync_interval (small files) x one-axis deviations of level/metadata/form/marker/stream kind",
        text="Every configuration of the stated product is written and read back from the bytes alone; records, canonical writer schema, codec and metadata are compared with the reference; wrapper streams prove only read / write+flush are needed.",
        note=PURE + " snappy/zstandard/lz4 recorded unavailable when not importable."),
    "C05": dict(engine=E1 + " + " + E2, category="exploration", design_ref="DESIGN.md 4/C05",
        technique="exhaustive enumeration of container layouts in both directions against an independent container parser/writer; exhaustive short byte strings for is_avro",
        text="Every file of the C04 family is parsed by an independent parser; every block partition (with empty blocks), metadata chunking and codec-key variant from an independent writer is read by reader and block_reader; all Java-written fixtures compared; block_reader tiling checked on every file; is_avro decided on every byte string of length <=6 over a 6-symbol alphabet.",
        note=PURE + " snappy fixtures skipped (library absent)."),
    "C06": dict(engine=E5, category="fault_enumeration", design_ref="DESIGN.md 4/C06",
        technique="exhaustive crash-point enumeration: every cut offset of every file, every single-byte alteration of every sync marker, every proper schemaless prefix",
        text="Every truncation offset and every marker-byte alteration (3 xor masks) of files over codecs x block counts x schemas is read by reader and block_reader and judged against block boundaries from an independent parser. Exhaustive over single faults.",
        note=PURE + " single-fault model."),
    "C07": dict(engine=E3, category="model_checking", design_ref="DESIGN.md 4/C07",
        technique="explicit-state breadth-first search over operation histories of the real Writer (replay-from-fresh, canonical state merging) against a reference model list",
        text="All histories over the write/flush/copy/failed-write/reopen alphabet to the stated depth are explored breadth-first on the real Writer with sound state merging; after every flush/reopen the real reader and an independent parser must return exactly the model list and the header must be unchanged; the pending buffer must match block_count after every operation.",
        note=PURE + " Depth bound stated in evidence (depth_completed)."),
    "C08": dict(engine=E1, category="exploration", design_ref="DESIGN.md 4/C08",
        technique="bounded exhaustive enumeration of (writer schema, every single evolution step at every position, datum) triples against a three-valued resolution reference",
        text="For every writer schema of the (namespace-free) family and hand-written evolution schemas, every single evolution step (thorough: pairs) at every position gives a reader schema; every D_1 datum is read by schemaless_reader and by the container reader and compared with the reference: VALUE (type- and bit-exact), ERROR (SchemaResolutionError), or EITHER where an empty collection hides an element-type incompatibility.",
        note=PURE + " Kind change of a named type under the same name and logical types are outside the step alphabet."),
    "C09": dict(engine=E1, category="exploration", design_ref="DESIGN.md 4/C09",
        technique="bounded exhaustive enumeration of union shapes x contexts x data x hints x options against the reference branch rule; byte-level read/write closure",
        text="Every ordered union of 2 (thorough 3) branches over an 18-element branch pool in six contexts (incl. by-name spellings) times every D_1 datum, ambiguous record data and hints, under both tuple-notation settings: the written index must be a conforming branch, identical for raw/parsed/repeated writes, follow the C09 rule where it is defined and honour hints; reading with each named-type option and writing back must reproduce the bytes wherever the statement claims it.",
        note=PURE + " Where the statement is silent (record and non-record branches both conform) only conformance and determinism are asserted."),
    "C10": dict(engine=E1, category="exploration", design_ref="DESIGN.md 4/C10",
        technique="bounded exhaustive enumeration of conforming data and every single non-conforming mutation at every position against an independent conformance predicate, four obligations per case",
        text="validate is compared with the reference predicate on conforming D_1 data and on every single mutation at every position, for raise_errors x strict x disable_tuple_notation; accepted data must be written and round-trip, rejected data must be refused by Writer(validator=True) (fresh, after a record, and re-opened in append mode) without changing its buffers.",
        note=PURE),
    "C11": dict(engine=E1, category="exploration", design_ref="DESIGN.md 4/C11",
        technique="bounded exhaustive enumeration: every family schema must parse with the reference's names; every single ill-forming mutation at every position must be rejected",
        text="Valid side: names table and canonical form equal the reference for the family, the namespace family and re-spellings, and every JSON type a field type accepts is accepted as default. Invalid side: each listed ill-forming mutation at every position of every family schema, decimal parameters for fixed sizes 0..16 at the boundary precisions, and a hand-made list of cross-branch redefinitions must raise SchemaParseException/UnknownType.",
        note=PURE + " Ambiguous spellings (True as number, scale 0.0, precision 0) are kept out of the mutation alphabet."),
    "C12": dict(engine=E1, category="exploration", design_ref="DESIGN.md 4/C12",
        technique="bounded exhaustive enumeration of every subset of named types hoisted into separately parsed pieces x every public operation x D_1 data; metamorphic comparison of raw, parsed and piecewise forms",
        text="For every family record schema with 1..4 named types, every subset of its non-top named types is parsed separately (raw pieces into a shared table, and pre-parsed pieces registered into a non-empty table) and only referenced; schemaless, container (read from the bytes alone), JSON, validate, canonical form and generate_one must give the same result as the raw form; unions of separately parsed records and parse_schema(parsed) are checked too.",
        note=PURE + " Only top-level records can carry the name table, so other top-level kinds are not piecewise-expressible."),
    "C13": dict(engine=E1, category="exploration", design_ref="DESIGN.md 4/C13",
        technique="bounded exhaustive enumeration of every single cosmetic rewrite at every position against a rule-list canonicaliser",
        text="For every family schema and namespace re-spelling, every single cosmetic rewrite at every position (pairs in thorough) must leave to_parsing_canonical_form equal to the reference text; the text is a fixed point, parses, and encodes/decodes D_1 data identically to the original.",
        note=PURE + " Schemas whose specification canonical form is itself lossy (null-namespace type nested in a namespace) are excluded from the fixed-point/encoding clauses and counted."),
    "C15": dict(engine=E1, category="exploration", design_ref="DESIGN.md 4/C15",
        technique="bounded exhaustive enumeration of family x D_1 record lists and of every nesting-context word of length <=3 over {record field, array item, map value, union branch} against an independent JSON encoder and the binary codec",
        text="Each output line must json.loads to the reference JSON encoding, json_reader must return the records, they must equal the binary decode by value, and documents with defaulted keys removed must yield the defaults; context words cover every nesting of the pushdown encoder/decoder up to the stated length with 0/1/2 items per level, plus recursion, map keys equal to field names, empty keys, and record lists around buffering boundaries.",
        note=PURE + " Non-finite floats and inexact ints under float/double excluded (no JSON representation / value mismatch by construction)."),
    "C16": dict(engine=E1, category="exploration", design_ref="DESIGN.md 4/C16",
        technique="exhaustive enumeration of whole or factored value domains of each logical type against integer-arithmetic conversions",
        text="All 3.65M dates; every second x sub-second set (+ dense ranges) for the time types; boundary years/days, month ends, every whole-minute offset at boundary instants for the four timestamp types; single-bit UUIDs; every coefficient x exponent x sign for precisions 1..3 (thorough 4) x every scale x bytes and fixed sizes, plus size boundaries to 16 bytes: representation bytes, round trip and the must-raise clause are checked.",
        note=PURE + " TZ=UTC for naive values under timestamp types."),
    "C17": dict(engine=E3, category="model_checking", design_ref="DESIGN.md 4/C17",
        technique="explicit-state breadth-first search over call histories on a re-imported library with snapshot merging, plus all ordered pairs; baselines from fresh interpreter processes",
        text="55 colliding public calls; BFS over histories where a state is the canonical snapshot of every mutable global/function default/class attribute of fastavro plus the argument pool, closed frontier (all finite histories over the alphabet, under the snapshot assumption) and, independently of the snapshot, every ordered pair of calls; each transition checks result == fresh-process baseline and argument objects intact.",
        note=PURE + " Snapshot completeness is an assumption for the closure claim; the all-pairs pass does not rely on it."),
    "C18": dict(engine=E4, category="model_checking", design_ref="DESIGN.md 4/C18",
        technique="stateless schedule exploration of real threads under a sys.settrace baton scheduler, iterative preemption bounding (all schedules with <= b preemptions); cold-start units re-import the library per execution",
        text="All unordered pairs (incl. self-pairs) of 14 operations chosen for the shared state they touch, two real threads on distinct streams sharing parsed schemas; every schedule with at most 1 preemption (2 for the small pairs; thorough 2/3, opcode granularity in the shared-state files, triples) is executed at line granularity and each thread's result compared with its solo result.",
        note=PURE + " Code outside /repo/fastavro is atomic in this model; bound stated per unit in the evidence."),
    "C19": dict(engine=E1, category="exploration", design_ref="DESIGN.md 4/C19",
        technique="exhaustive enumeration of every dependency DAG on <=3 (thorough 4) named types x namespaces x edge realisations (<=2 deviations) as real file repositories, against a reference inliner",
        text="Every DAG with every sink kind and namespace assignment is written as one file per type; load_schema must give the canonical form and encodings of the types inlined at first use, load_schema_ordered must agree for every dependencies-first order, and removing any one file must raise an error naming exactly that type.",
        note=PURE),
    "C20": dict(engine=E2, category="model_checking", design_ref="DESIGN.md 4/C20",
        technique="model checking of the environment: the library's random source is scripted and every answer sequence within a deviation bound is explored (stateless DFS with prefix replay)",
        text="For every family schema, every logical type and recursive schemas, every execution of generate_many with at most 2 (thorough 3) non-default answers of the scripted random/uuid source is run; counts, reference conformance, validate, both writers and read-back are checked on every generated value; interleaved live generators over same-named twin schemas are explored too.",
        note=PURE + " Answer alphabets per draw are extremes, midpoint and small values."),
    "C14": dict(
        engine=E1, category="exploration", design_ref="DESIGN.md 4/C14",
        technique="bounded exhaustive enumeration of texts x algorithm names against a bit-serial CRC reference / hashlib",
        text="Every text of <=2 code points over the stated ranges (all UTF-8 lengths, every CRC table index from many predecessor states), long texts and schema canonical forms, for every advertised fixed-length algorithm and every unknown-name spelling of the alphabet, is compared with an independent bit-serial CRC-64-AVRO and hashlib. Exhaustive within the alphabet.",
        note="Trusts hashlib and the four Apache vectors anchoring mc/ref/rabin.py; pure-Python fastavro only.",
    ),
}

NOT_YET = {}


def main():
    props = [json.loads(l) for l in open(os.path.join(HERE, "properties.jsonl"))]
    checks = []
    na = []
    for p in props:
        pid = p["id"]
        c = CHECKS.get(pid)
        if not c:
            na.append({"property_id": pid, "reason": NOT_YET.get(pid, "check not built yet in this session; will be claimed once its driver exists (see DESIGN.md section 4)")})
            continue
        checks.append({
            "property_id": pid,
            "quick_cmd": f"./check {pid} --tier quick",
            "thorough_cmd": f"./check {pid} --tier thorough",
            "evidence_file": f"/verif/evidence/{pid}.json",
            "replay_cmd_template": f"./check {pid} --replay {{path}}",
            "engine": c["engine"],
            "level_claimed": {"category": c["category"], "text": c["text"], "design_ref": c["design_ref"]},
            "level_note": c["note"],
            "technique": c["technique"],
        })
    m = {
        "version": 1,
        "setup_cmd": "true",
        "hooks": {
            "guard": "FASTAVRO_VERIF",
            "enable": "no source hooks: checks run /venv/bin/python with PYTHONPATH=/repo (pure-Python sources are the build); FASTAVRO_VERIF=1 is exported by ./check but nothing in /repo reads it",
            "baseline_off_cmd": "cd /repo && /venv/bin/python -m pytest -ra -q -p no:cacheprovider --timeout=900 --continue-on-collection-errors",
            "source_commits": [],
            "add_only": True,
        },
        "engines": [
            {"name": E1, "path": "mc/alphabet.py", "serves_properties": sorted(k for k, v in CHECKS.items() if E1 in v["engine"]),
             "kind_free_text": "deviation-bounded exhaustive enumeration of schema x datum x configuration against an independent reference model (mc/ref)"},
            {"name": E2, "path": "mc/props/c03.py", "serves_properties": sorted(k for k, v in CHECKS.items() if E2 in v["engine"]),
             "kind_free_text": "stateless odometer/DFS over recorded choice points (layout choices of the independent encoder, answers of the scripted random source)"},
            {"name": E3, "path": "mc/props/c07.py", "serves_properties": sorted(k for k, v in CHECKS.items() if E3 in v["engine"]),
             "kind_free_text": "breadth-first explicit-state search; a state is the history reaching it, rebuilt on fresh real objects; canonical-state merging"},
            {"name": E4, "path": "mc/sched.py", "serves_properties": sorted(k for k, v in CHECKS.items() if E4 in v["engine"]),
             "kind_free_text": "sys.settrace baton scheduler over real threads with iterative preemption bounding"},
            {"name": E5, "path": "mc/props/c06.py", "serves_properties": sorted(k for k, v in CHECKS.items() if E5 in v["engine"]),
             "kind_free_text": "every cut offset / every marker byte alteration of real writer output"},
        ],
        "checks": checks,
        "not_applicable": na,
        "notes": "All checks are ./check <ID> --tier quick|thorough; they import /repo's current pure-Python sources in fresh worker processes. See DESIGN.md.",
    }
    json.dump(m, open(os.path.join(HERE, "MANIFEST.json"), "w"), indent=1)
    code = "import json,sys,jsonschema; jsonschema.validate(json.load(open(sys.argv[1])), json.load(open('/root/.vp/MANIFEST.schema.json')))"
    r = subprocess.run(["python3-vt", "-c", code, os.path.join(HERE, "MANIFEST.json")])
    print("manifest valid" if r.returncode == 0 else "MANIFEST INVALID")
    sys.exit(r.returncode)


if __name__ == "__main__":
    main()
