#!/usr/bin/env python3
"""Regenerates MANIFEST.json from the table below (python3 tools_manifest.py)."""
import json, os, subprocess, sys

HERE = os.path.dirname(os.path.abspath(__file__))

E1 = "E1 small-scope enumerator"
CHECKS = {
    "C14": dict(
        engine=E1, category="exploration", design_ref="DESIGN.md 4/C14",
        technique="bounded exhaustive enumeration of texts x algorithm names against a bit-serial CRC reference / hashlib",
        text="Every text of <=2 code points over the stated ranges (all UTF-8 lengths, every CRC table index from many predecessor states), long texts and schema canonical forms, for every advertised fixed-length algorithm and every unknown-name spelling of the alphabet, is compared with an independent bit-serial CRC-64-AVRO and hashlib. Exhaustive within the alphabet; says nothing about longer arbitrary texts beyond the sampled lengths, which is acceptable because the CRC state machine has 256 table entries and a 64-bit register whose per-byte step is covered for every (index) entry.",
        note="Trusts hashlib and the four Apache vectors anchoring mc/ref/rabin.py; pure-Python fastavro only.",
    ),
}

NOT_YET = {}


def main():
    props = [json.loads(l) for l in open(os.path.join(HERE, "properties.jsonl"))]
    checks = []
    na = []
    for p in props:
        pid = p["id"]
        c = CHECKS.get(pid)
        if not c:
            na.append({"property_id": pid, "reason": NOT_YET.get(pid, "check not built yet in this session; will be claimed once its driver exists (see DESIGN.md section 4)")})
            continue
        checks.append({
            "property_id": pid,
            "quick_cmd": f"./check {pid} --tier quick",
            "thorough_cmd": f"./check {pid} --tier thorough",
            "evidence_file": f"/verif/evidence/{pid}.json",
            "replay_cmd_template": f"./check {pid} --replay {{path}}",
            "engine": c["engine"],
            "level_claimed": {"category": c["category"], "text": c["text"], "design_ref": c["design_ref"]},
            "level_note": c["note"],
            "technique": c["technique"],
        })
    m = {
        "version": 1,
        "setup_cmd": "true",
        "hooks": {
            "guard": "FASTAVRO_VERIF",
            "enable": "no source hooks: checks run /venv/bin/python with PYTHONPATH=/repo (pure-Python sources are the build); FASTAVRO_VERIF=1 is exported by ./check but nothing in /repo reads it",
            "baseline_off_cmd": "cd /repo && /venv/bin/python -m pytest -ra -q -p no:cacheprovider --timeout=900 --continue-on-collection-errors",
            "source_commits": [],
            "add_only": True,
        },
        "engines": [
            {"name": E1, "path": "mc/enum.py", "serves_properties": sorted(k for k, v in CHECKS.items() if v["engine"] == E1),
             "kind_free_text": "deviation-bounded exhaustive enumeration of schema x datum x configuration against an independent reference model (mc/ref)"},
        ],
        "checks": checks,
        "not_applicable": na,
        "notes": "All checks are ./check <ID> --tier quick|thorough; they import /repo's current pure-Python sources in fresh worker processes. See DESIGN.md.",
    }
    json.dump(m, open(os.path.join(HERE, "MANIFEST.json"), "w"), indent=1)
    code = "import json,sys,jsonschema; jsonschema.validate(json.load(open(sys.argv[1])), json.load(open('/root/.vp/MANIFEST.schema.json')))"
    r = subprocess.run(["python3-vt", "-c", code, os.path.join(HERE, "MANIFEST.json")])
    print("manifest valid" if r.returncode == 0 else "MANIFEST INVALID")
    sys.exit(r.returncode)


if __name__ == "__main__":
    main()
