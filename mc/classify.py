"""Narrow predicates over failing cases, used to build known-finding signatures."""
from .ref.names import deref


def omits_bytes_field_with_string_default(node, defs, d):
    """True when datum d omits, somewhere, a record field whose type is bytes or
    fixed (directly, by name, or as the first branch of a union) and whose schema
    default is the specification's string form."""
    n = deref(node, defs)
    k = n["k"]
    if k == "record" and isinstance(d, dict):
        for f in n["fields"]:
            if f["name"] not in d:
                if isinstance(f.get("default"), str):
                    t = deref(f["type"], defs)
                    if t["k"] == "union" and t["branches"]:
                        t = deref(t["branches"][0], defs)
                    if t["k"] in ("bytes", "fixed"):
                        return True
            elif omits_bytes_field_with_string_default(f["type"], defs, d[f["name"]]):
                return True
        return False
    if k == "array" and isinstance(d, (list, tuple)):
        return any(omits_bytes_field_with_string_default(n["items"], defs, x) for x in d)
    if k == "map" and isinstance(d, dict):
        return any(omits_bytes_field_with_string_default(n["values"], defs, x) for x in d.values())
    if k == "union":
        v = d[1] if isinstance(d, tuple) and len(d) == 2 else d
        return any(omits_bytes_field_with_string_default(b, defs, v) for b in n["branches"])
    return False
