"""Value helpers shared by the drivers: strict equality, keys, repr round trip."""
import datetime
import decimal
import struct
import uuid
import hashlib


def parse_repr(text):
    ns = {
        "nan": float("nan"),
        "inf": float("inf"),
        "Decimal": decimal.Decimal,
        "datetime": datetime,
        "UUID": uuid.UUID,
        "bytearray": bytearray,
        "array": __import__("array").array,
        "defaultdict": __import__("collections").defaultdict,
        "int": int,
        "__builtins__": {"True": True, "False": False, "None": None, "bytearray": bytearray, "set": set,
                         "frozenset": frozenset, "float": float, "range": range, "bytes": bytes},
    }
    return eval(text, ns)  # replay files are written by this machinery only


def fbits(x):
    return struct.pack("<d", x)


def same(a, b):
    """Strict structural equality: types must agree (5 != 5.0, 'a' != b'a',
    [] != ()), floats compare by bit pattern (so nan == nan, 0.0 != -0.0)."""
    ta, tb = type(a), type(b)
    if ta is not tb:
        return False
    if ta is float:
        return fbits(a) == fbits(b)
    if ta in (list, tuple):
        return len(a) == len(b) and all(same(x, y) for x, y in zip(a, b))
    if ta is dict:
        if len(a) != len(b):
            return False
        for k, v in a.items():
            if k not in b or not same(v, b[k]):
                return False
        return True
    if ta is decimal.Decimal:
        return a.as_tuple() == b.as_tuple()
    return a == b


def same_ordered(a, b):
    """`same` and additionally dict key order equal (used where order is claimed)."""
    if not same(a, b):
        return False
    if isinstance(a, dict):
        return list(a) == list(b) and all(same_ordered(a[k], b[k]) for k in a)
    if isinstance(a, (list, tuple)):
        return all(same_ordered(x, y) for x, y in zip(a, b))
    return True


def num_equal(a, b):
    """Equality with numbers compared by value (C15: JSON vs binary)."""
    if isinstance(a, bool) or isinstance(b, bool):
        return type(a) is type(b) and a == b
    if isinstance(a, (int, float)) and isinstance(b, (int, float)):
        if a != a and b != b:
            return True
        return a == b
    if type(a) is not type(b):
        return False
    if isinstance(a, (list, tuple)):
        return len(a) == len(b) and all(num_equal(x, y) for x, y in zip(a, b))
    if isinstance(a, dict):
        return a.keys() == b.keys() and all(num_equal(a[k], b[k]) for k in a)
    return a == b


def key(o):
    """Short stable hash of a value (floats by bits, types distinguished)."""
    return hashlib.blake2b(_canon(o).encode("utf-8", "surrogatepass"), digest_size=8).digest()


def _canon(o):
    t = type(o)
    if t is float:
        return "f" + fbits(o).hex()
    if t is dict:
        return "{" + ",".join(_canon(k) + ":" + _canon(v) for k, v in o.items()) + "}"
    if t is list:
        return "[" + ",".join(_canon(x) for x in o) + "]"
    if t is tuple:
        return "(" + ",".join(_canon(x) for x in o) + ")"
    if t is memoryview:
        return "memoryview" + repr(o.tobytes())
    return t.__name__ + repr(o)
