"""E4 — schedule explorer for real threads (DESIGN.md 2.4).

Real threading.Thread objects run one operation each; a sys.settrace function
turns every `line` (or `opcode`) event in a frame whose code lives under
/repo/fastavro into a scheduling point.  Exactly one thread runs at a time: at
a point the running thread consults the schedule and either continues or hands
the baton to another thread (semaphores).  Exploration is iterative preemption
bounding by depth-first search over schedule prefixes, executions always run to
completion.  No fork per execution."""
import os
import sys
import threading

from .harness import REPO

FASTAVRO_DIR = os.path.realpath(os.path.join(REPO, "fastavro")) + os.sep


class Livelock(BaseException):
    pass


class Execution:
    __slots__ = ("choices", "arity", "running_enabled", "results", "points_per_thread", "preempt_at", "steps", "error")


class Runner:
    def __init__(self, nthreads, granularity="line", opcode_files=(), horizon=200000, record_labels=False):
        self.n = nthreads
        self.gran = granularity
        self.opcode_files = tuple(opcode_files)
        self.horizon = horizon
        self.record_labels = record_labels
        self.labels = []

    # -- one controlled execution -------------------------------------------
    def run(self, bodies, prefix):
        """bodies: list of zero-arg callables (fresh per execution).  prefix: list of
        choices.  Returns Execution."""
        n = self.n
        self.sem = [threading.Semaphore(0) for _ in range(n)]
        self.done_evt = threading.Semaphore(0)
        self.finished = [False] * n
        self.results = [None] * n
        self.prefix = prefix
        self.choices = []
        self.arity = []
        self.running_enabled = []
        self.steps = 0
        self.pts = [0] * n
        self.abort = None
        self.labels = []  # (choice index or None, tid, file, line) per scheduling point, when record_labels
        threads = []
        for i in range(n):
            t = threading.Thread(target=self._thread_main, args=(i, bodies[i]), daemon=True)
            threads.append(t)
            t.start()
        first = self._choose(list(range(n)), False)
        self.sem[first].release()
        self.done_evt.acquire()
        for t in threads:
            t.join(10)
        ex = Execution()
        ex.choices, ex.arity, ex.running_enabled = self.choices, self.arity, self.running_enabled
        ex.results = self.results
        ex.points_per_thread = list(self.pts)
        ex.steps = self.steps
        ex.error = self.abort
        return ex

    def _choose(self, canonical, running_enabled):
        i = len(self.choices)
        c = self.prefix[i] if i < len(self.prefix) else 0
        if c >= len(canonical):
            self.abort = f"schedule replay diverged at point {i}: choice {c} of {len(canonical)}"
            c = 0
        self.choices.append(c)
        self.arity.append(len(canonical))
        self.running_enabled.append(running_enabled)
        return canonical[c]

    def _point(self, tid, frame=None):
        self.steps += 1
        self.pts[tid] += 1
        if self.steps > self.horizon:
            raise Livelock()
        others = [j for j in range(self.n) if j != tid and not self.finished[j]]
        if self.record_labels and frame is not None:
            self.labels.append((len(self.choices) if others else None, tid, frame.f_code.co_filename, frame.f_lineno))
        if not others:
            return
        target = self._choose([tid] + others, True)
        if target != tid:
            self.sem[target].release()
            self.sem[tid].acquire()

    def _tracer(self, tid):
        gran = self.gran
        opfiles = self.opcode_files
        point = self._point

        def local(frame, event, arg):
            if event == "line" and not frame.f_trace_opcodes:
                point(tid, frame)
            elif event == "opcode":
                point(tid, frame)
            return local

        def glob(frame, event, arg):
            if event != "call":
                return None
            fn = frame.f_code.co_filename
            if not fn.startswith(FASTAVRO_DIR):
                return None
            if gran == "opcode" and fn.endswith(opfiles):
                frame.f_trace_opcodes = True
            return local

        return glob

    def _thread_main(self, tid, body):
        self.sem[tid].acquire()
        sys.settrace(self._tracer(tid))
        try:
            try:
                r = ("ok", body())
            except Livelock:
                r = ("livelock", None)
                self.abort = "horizon exceeded (livelock)"
            except Exception as e:  # the operation's own outcome
                r = ("exc", type(e).__name__, str(e)[:300])
        finally:
            sys.settrace(None)
        self.results[tid] = r
        self.finished[tid] = True
        others = [j for j in range(self.n) if not self.finished[j]]
        if not others:
            self.done_evt.release()
            return
        target = self._choose(others, False)
        self.sem[target].release()


def preemptions(ex, upto):
    return sum(1 for i in range(upto) if ex.running_enabled[i] and ex.choices[i] != 0)


def visits_first_second_last(labels):
    """Choice indices whose scheduling point is the 1st, 2nd or last visit of its (thread, file, line)."""
    per = {}
    for idx, tid, fn, ln in labels:
        if idx is not None:
            per.setdefault((tid, fn, ln), []).append(idx)
    keep = set()
    for idxs in per.values():
        keep.update(idxs[:2])
        keep.add(idxs[-1])
    return keep


def explore(runner, make_bodies, bound, on_execution, max_executions=None, chunk=(0, 1), eligible=None):
    """Depth-first exploration of all schedules with at most `bound` preemptions.
    make_bodies() -> fresh list of callables.  on_execution(ex) is called for each.
    eligible(runner) -> set of choice indices of the DEFAULT execution at which the first deviation
    may happen (used for the location-bounded cold-start mode); None = all.
    chunk=(c, C): only schedules whose FIRST deviation from the default schedule lies in
    the c-th of C equal slices of the default execution's points (the C chunks partition
    the schedule space; the default execution itself is run by every chunk).
    Returns (executions, capped)."""
    stack = [[]]
    count = 0
    while stack:
        prefix = stack.pop()
        ex = runner.run(make_bodies(), prefix)
        count += 1
        on_execution(ex, prefix)
        if max_executions and count >= max_executions:
            return count, True
        pre = 0
        pres = []
        for i in range(len(ex.choices)):
            pres.append(pre)
            if ex.running_enabled[i] and ex.choices[i] != 0:
                pre += 1
        lo, hi = len(prefix), len(ex.choices)
        if not prefix:
            lo, hi = (hi * chunk[0]) // chunk[1], (hi * (chunk[0] + 1)) // chunk[1]
        # the location filter applies to the placement of the first PREEMPTION (free choices, such as
        # which thread starts, are always explored)
        allowed = eligible(runner) if eligible is not None else None
        for i in range(lo, hi):
            if allowed is not None and ex.running_enabled[i] and pres[i] == 0 and i not in allowed:
                continue
            cost = pres[i] + (1 if ex.running_enabled[i] else 0)
            if cost > bound:
                continue
            for alt in range(1, ex.arity[i]):
                stack.append(ex.choices[:i] + [alt])
    return count, False
