"""Datum alphabets and the deviation-bounded enumerator D_k(S) (DESIGN.md 2.1, 3).

variants(node, defs, k) -> list of (datum, cost): every datum obtained from the
base datum of the schema by at most k non-base choices (a leaf replaced by
another element of its alphabet, a collection replaced by another shape, a
later union branch, a hint, an omitted field)."""
from .ref.names import deref, branch_name, accepts_null

INT_MIN, INT_MAX = -(1 << 31), (1 << 31) - 1
LONG_MIN, LONG_MAX = -(1 << 63), (1 << 63) - 1


def _varint_edges(maxlen, lo, hi):
    out = [0, 1, -1, 2, -2]
    for k in range(1, maxlen + 1):
        p = 1 << (7 * k - 1)
        out += [p - 1, p, -p, -p - 1]
    out += [hi, lo, hi - 1, lo + 1]
    seen = []
    for v in out:
        if lo <= v <= hi and v not in seen:
            seen.append(v)
    return seen


INTS = _varint_edges(5, INT_MIN, INT_MAX)
LONGS = _varint_edges(10, LONG_MIN, LONG_MAX) + [1 << 31, -(1 << 31) - 1, (1 << 31) - 1, -(1 << 31), 1 << 32]
FLOATS = [0.0, -0.0, 1.5, 0.1, -2.5, 2.0 ** -149, 3.4028234663852886e38, float("inf"), float("-inf"), float("nan"), 1, 16777217]
DOUBLES = [0.0, -0.0, 1.5, 0.1, -2.5, 5e-324, 1.7976931348623157e308, float("inf"), float("-inf"), float("nan"), 1,
           9007199254740993, 2.0 ** -149]
UNENCODABLE = ["\ud800", "ok\udc80", "\ud83d\ude00"]  # lone surrogates: not Unicode text, cannot be written as UTF-8
STRINGS = ["", "a", "é", "€", "𝄞", "\x00", "a\nb\"\\", "x" * 63, "x" * 64, "é" * 32, "y" * 65, "€" * 2731, "z" * 8192,
           "\ufeffhello", "\ufeff", "NaN", "Infinity", "-Infinity", "12", "1e3", "nan", " 7 ", "-inf", "1_0"]  # a leading U+FEFF is text, not a byte-order mark; number-like words are strings
BYTESES = [b"", b"a", b"\x00", b"\xff\xfe", bytes(range(256)), b"q" * 63, b"q" * 64, b"q" * 65, b"r" * 8192, bytearray(b"ba")]
LONG_N = (63, 64, 65)


class StrKey(str):
    def __str__(self):
        return "StrKey." + str.upper(self)

    def __repr__(self):
        return str.__repr__(self)

    def __reduce__(self):
        return (StrKey, (str.__str__(self),))


def leaf(n):
    k = n["k"]
    if n.get("logical") == "decimal" and k in ("bytes", "fixed"):
        import decimal

        sc = n.get("scale", 0)
        vals = [decimal.Decimal(1).scaleb(-sc), decimal.Decimal(-15).scaleb(-sc), decimal.Decimal(0)]
        p = n.get("precision")
        if isinstance(p, int) and p >= 3:
            # the widest coefficients the declared precision allows (beyond the 28 digits of the default decimal context when p > 28)
            digits = ("1234567890" * 8)[:p]
            vals += [decimal.Decimal((0, tuple(map(int, digits)), -sc)), decimal.Decimal((1, tuple([9] * p), -sc))]
        raw = [b"\x00" * n["size"]] if k == "fixed" else [b"\x01"]  # (b"" is not a two's-complement number: kept out)
        if k == "fixed" and int.from_bytes(b"\x7f" * n["size"], "big") < 10 ** (n.get("precision") or 0):
            raw.append(b"\x7f" * n["size"])  # only where the declared precision can hold it
        return vals + raw
    if n.get("logical") == "uuid" and k == "string":
        import uuid

        # UUID objects, and strs in several spellings of a UUID (a str is written as it is)
        return [uuid.UUID("12345678-1234-4234-9234-123456789abc"), uuid.UUID(int=0), "12345678-1234-4234-9234-123456789ABC", "{12345678-1234-4234-9234-123456789abc}",
                "urn:uuid:12345678-1234-4234-9234-123456789abc", "12345678123442349234123456789abc"]
    if n.get("logical") == "date" and k == "int":
        import datetime

        return [0, 1, -1, 18321, datetime.date(2020, 2, 29), datetime.date(1, 1, 1), datetime.date(9999, 12, 31), -719162, 2932896]
    if k == "null":
        return [None]
    if k == "boolean":
        return [False, True]
    if k == "int":
        return INTS
    if k == "long":
        return LONGS
    if k == "float":
        return FLOATS
    if k == "double":
        return DOUBLES
    if k == "string":
        return STRINGS
    if k == "bytes":
        return BYTESES
    if k == "fixed":
        s = n["size"]
        pat = bytes((i * 37 + 1) % 256 for i in range(s))
        out = [b"\x00" * s]
        for v in (b"\xff" * s, pat):
            if v not in out:
                out.append(v)
        return out
    if k == "enum":
        return list(n["symbols"])
    raise AssertionError(k)


class _Rec(Exception):
    pass


MAXOPEN = 2


def base(node, defs, stack=()):
    n = deref(node, defs)
    k = n["k"]
    if k == "record":
        if stack.count(n["name"]) >= MAXOPEN:
            raise _Rec()
        st = stack + (n["name"],)
        return {f["name"]: base(f["type"], defs, st) for f in n["fields"]}
    if k == "array":
        try:
            return [base(n["items"], defs, stack)]
        except _Rec:
            return []
    if k == "map":
        try:
            return {"a": base(n["values"], defs, stack)}
        except _Rec:
            return {}
    if k == "union":
        for b in n["branches"]:
            try:
                return base(b, defs, stack)
            except _Rec:
                continue
        raise _Rec()
    return leaf(n)[0]


def variants(node, defs, k, hints=True, in_union=False, stack=(), big=True):
    """list of (datum, cost), cost <= k, base first."""
    n = deref(node, defs)
    kd = n["k"]
    if kd in ("null", "boolean", "int", "long", "float", "double", "string", "bytes", "fixed", "enum"):
        al = leaf(n)
        out = [(al[0], 0)]
        if k >= 1:
            out += [(v, 1) for v in al[1:]]
        return out
    if kd == "array":
        try:
            iv = variants(n["items"], defs, k, hints, False, stack, big)
        except _Rec:
            return [([], 0)]
        b = iv[0][0]
        out = [([v], c) for v, c in iv]
        if k >= 1:
            out.append(([], 1))
            out.append(([b, b], 1))
            if big:
                for m in LONG_N:
                    out.append(([b] * m, 1))
                last = iv[-1][0]
                if deref(n["items"], defs)["k"] in ("int", "long", "float", "double", "string", "boolean", "enum"):
                    # a long run of plain items and one extreme item at the very end (an item-wise check must reach it)
                    out.append(([b] * 100 + [last], 1))
                    out.append(([b] * 300 + [last], 1))
                ik = deref(n["items"], defs)
                if ik["k"] in ("int", "long") and "logical" not in ik and isinstance(last, int) and -(1 << 63) <= last < (1 << 63):
                    import array as _array

                    out.append((_array.array("q", [b, last]), 1))  # a typed array is a sequence like any other
                if ik["k"] in ("float", "double") and "logical" not in ik:
                    import array as _array

                    # typed arrays of either width under either item type: items are values, not raw memory
                    out.append((_array.array("d", [0.5, -2.25]), 1))
                    out.append((_array.array("f", [0.5, -2.25, 1.5]), 1))
                    if ik["k"] == "double":
                        out.append((_array.array("d", [0.5, -1e300]), 1))
                if ik["k"] in ("int", "long") and "logical" not in ik:
                    import array as _array

                    out.append((_array.array("h", [1, -2, 300]), 1))
                    out.append((_array.array("B", [0, 255]), 1))
            if not in_union:
                out.append(((b, b), 1))
            out += [([b, v], c + 1) for v, c in iv[1:] if c + 1 <= k]
        return out
    if kd == "map":
        try:
            iv = variants(n["values"], defs, k, hints, False, stack, big)
        except _Rec:
            return [({}, 0)]
        b = iv[0][0]
        out = [({"a": v}, c) for v, c in iv]
        if k >= 1:
            out.append(({}, 1))
            out.append(({"a": b, "b": b}, 1))
            out.append(({"b": b, "a": b}, 1))
            out.append(({"": b}, 1))
            out.append(({"é\x00": b}, 1))
            out.append(({"\ufeffk": b, "k": b}, 1))
            out.append(({StrKey("email"): b, "k": b}, 1))  # a str subclass with its own __str__ is the string it holds
            out.append(({"k" * 64: b}, 1))
            if big:
                out.append(({"k%d" % i: b for i in range(64)}, 1))
            out += [({"a": b, "b": v}, c + 1) for v, c in iv[1:] if c + 1 <= k]
        return out
    if kd == "union":
        out = []
        first = True
        for i, br in enumerate(n["branches"]):
            extra = 0 if first else 1
            if k - extra < 0:
                continue
            try:
                bv = variants(br, defs, k - extra, hints, True, stack, big)
            except _Rec:
                continue
            first = False
            out += [(v, c + extra) for v, c in bv]
            if hints and k >= 1:
                name = branch_name(br, defs)
                out.append(((name, bv[0][0]), 1))
                bn = deref(br, defs)
                if bn["k"] == "record":
                    d = dict(bv[0][0])
                    d["-type"] = bn["name"]
                    out.append((d, 1))
        if not out:
            raise _Rec()
        return out
    if kd == "record":
        if stack.count(n["name"]) >= MAXOPEN:
            raise _Rec()
        st = stack + (n["name"],)
        fv = [variants(f["type"], defs, k, hints, False, st, big) for f in n["fields"]]
        names = [f["name"] for f in n["fields"]]
        out = []

        def rec(i, acc, cost):
            if i == len(fv):
                out.append((dict(zip(names, acc)), cost))
                return
            for v, c in fv[i]:
                if cost + c <= k:
                    acc.append(v)
                    rec(i + 1, acc, cost + c)
                    acc.pop()

        rec(0, [], 0)
        if k >= 1:
            b = out[0][0]
            for f in n["fields"]:
                if "default" in f or accepts_null(f["type"], defs):
                    d = {kk: vv for kk, vv in b.items() if kk != f["name"]}
                    out.append((d, 1))
            if len(names) >= 2:
                out.append(({kk: b[kk] for kk in reversed(names)}, 1))
            dflt = [f["name"] for f in n["fields"] if "default" in f or accepts_null(f["type"], defs)]
            if len(dflt) >= 2:
                out.append(({kk: vv for kk, vv in b.items() if kk not in dflt}, 1))  # every default taken at once
            if dflt:
                import collections as _collections

                # a mapping that fabricates values for missing keys: an absent field is still absent
                out.append((_collections.defaultdict(int, {kk: vv for kk, vv in b.items() if kk not in dflt}), 1))
        return out
    raise AssertionError(kd)


def data_for(node, defs, k, hints=True, big=True):
    try:
        return variants(node, defs, k, hints=hints, big=big)
    except _Rec:
        return []
