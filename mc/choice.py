"""E2 — stateless choice-point explorer (DESIGN.md 2.2).

The code under test runs against an environment whose every answer is
choose(label, n).  An execution is its list of choices; explore() replays a
prefix, answers 0 afterwards and recurses on every alternative at every later
point while the number of non-zero choices stays within the deviation bound."""


class ReplayDivergence(Exception):
    pass


class Horizon(Exception):
    pass


class Chooser:
    def __init__(self, prefix, horizon):
        self.prefix = prefix
        self.horizon = horizon
        self.choices = []
        self.arity = []
        self.labels = []

    def choose(self, label, n):
        i = len(self.choices)
        if i >= self.horizon:
            raise Horizon(f"more than {self.horizon} choice points")
        c = self.prefix[i] if i < len(self.prefix) else 0
        if c >= n:
            raise ReplayDivergence(f"point {i} ({label}): replayed choice {c} but arity is {n}")
        self.choices.append(c)
        self.arity.append(n)
        self.labels.append(label)
        return c


def explore(run, bound, horizon=5000, max_executions=None):
    """run(chooser) -> None (records its own observations).  Yields nothing; returns
    (executions, capped).  run is called once per schedule."""
    stack = [[]]
    count = 0
    while stack:
        prefix = stack.pop()
        ch = Chooser(prefix, horizon)
        run(ch)
        count += 1
        if max_executions and count >= max_executions:
            return count, True
        dev = 0
        devs = []
        for c in ch.choices:
            devs.append(dev)
            if c:
                dev += 1
        for i in range(len(prefix), len(ch.choices)):
            if devs[i] + 1 > bound:
                continue
            for alt in range(1, ch.arity[i]):
                stack.append(ch.choices[:i] + [alt])
    return count, False
