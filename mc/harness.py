"""Runner, worker pool, evidence writer, replay files and known-findings matcher.

Every check is `./check <ID> --tier quick|thorough`.  A driver module
(mc/props/cNN.py) exposes

    LEVEL        "exploration" | "fault_enumeration" | "model_checking"
    RULE         text: how cases are enumerated, what makes one distinct
    units(tier)  -> list of small picklable work units (disjoint by construction)
    run_unit(unit, tier) -> UnitResult
    replay(case) -> list[Violation]          (re-executes one recorded case)
    ASSUMPTIONS  list[str]

Workers are long-lived processes (one pool per run, never a fork per execution).
Every run starts fresh interpreters that import /repo's *current* sources, which
is what "rebuild" means for the pure-Python implementation.
"""
import collections
import hashlib
import importlib
import importlib.abc
import json
import multiprocessing
import os
import signal
import subprocess
import sys
import time
import traceback

VERIF = os.path.dirname(os.path.dirname(os.path.abspath(__file__)))
REPO = os.environ.get("VERIF_REPO", "/repo")
NPROC = int(os.environ.get("VERIF_NPROC", "16"))

_BLOCKED = {
    "fastavro._read",
    "fastavro._write",
    "fastavro._schema",
    "fastavro._validation",
    "fastavro._logical_readers",
    "fastavro._logical_writers",
}


class _Blocker(importlib.abc.MetaPathFinder):
    def find_spec(self, name, path, target=None):
        if name in _BLOCKED:
            raise ImportError(f"{name}: compiled mirror blocked by the verification harness")
        return None


def setup_fastavro():
    """Make `import fastavro` resolve to the pure-Python sources under REPO."""
    if not any(isinstance(f, _Blocker) for f in sys.meta_path):
        sys.meta_path.insert(0, _Blocker())
    if REPO not in sys.path[:1]:
        sys.path.insert(0, REPO)
    os.environ.setdefault("FASTAVRO_VERIF", "1")
    import fastavro  # noqa

    assert os.path.realpath(fastavro.__file__).startswith(os.path.realpath(REPO) + os.sep), fastavro.__file__
    import fastavro._read_py, fastavro._write_py, fastavro._schema_py, fastavro._validation_py  # noqa
    import fastavro.read

    assert fastavro.read.reader is fastavro._read_py.reader
    return fastavro


def exercised_modules():
    out = []
    for n, m in sorted(sys.modules.items()):
        if n.startswith("fastavro") and getattr(m, "__file__", None):
            out.append(m.__file__)
    return out


# --------------------------------------------------------------------------
# results


class Violation(dict):
    """check: sub-check name; sig: narrow signature used for known-findings;
    message: human text; case: repr()-able dict that `replay` understands."""

    def __init__(self, check, sig, message, case):
        super().__init__(check=check, sig=sig, message=str(message)[:2000], case=case)


class UnitResult:
    def __init__(self):
        self.evals = 0
        self.distinct = 0  # distinct non-trivial cases of this unit
        self.violations = []
        self.violation_count = collections.Counter()  # sig -> count
        self.samples = []
        self.stats = collections.Counter()
        self.sets = collections.defaultdict(set)  # name -> set merged across units (kept small)
        self.states = 0
        self.transitions = 0
        self.caps = []

    def add(self, v, keep=3):
        self.violation_count[v["sig"]] += 1
        if self.violation_count[v["sig"]] <= keep:
            v["case"] = _portable(v.get("case"))
            self.violations.append(v)

    def sample(self, obj, limit=2):
        if len(self.samples) < limit:
            self.samples.append(obj)


def _portable(x):
    """A case description that can cross a process boundary: objects that cannot be pickled (memoryview, generators, open
    streams) are replaced by a description of themselves."""
    import pickle

    try:
        pickle.dumps(x)
        return x
    except Exception:
        pass
    if isinstance(x, dict):
        return {k: _portable(v) for k, v in x.items()}
    if isinstance(x, list):
        return [_portable(v) for v in x]
    if isinstance(x, tuple):
        return tuple(_portable(v) for v in x)
    if isinstance(x, memoryview):
        return ("memoryview", x.format, x.tobytes())
    return repr(x)[:200]


class HarnessTimeout(BaseException):
    pass


_CURRENT = {"case": None}


def note_case(case):
    """Drivers call this before each execution so that a timeout can name the case."""
    _CURRENT["case"] = case


def _alarm(signum, frame):
    raise HarnessTimeout()


_WORKER = {}


def _init_worker(modname, tier, seed):
    setup_fastavro()
    os.environ["VERIF_SEED"] = str(seed)
    _WORKER["mod"] = importlib.import_module(modname)
    _WORKER["tier"] = tier
    if hasattr(_WORKER["mod"], "init_worker"):
        _WORKER["mod"].init_worker(tier)
    signal.signal(signal.SIGALRM, _alarm)


def _run_unit(unit):
    mod, tier = _WORKER["mod"], _WORKER["tier"]
    limit = getattr(mod, "UNIT_TIMEOUT_S", 300)
    signal.setitimer(signal.ITIMER_REAL, limit)
    t0 = time.time()
    try:
        res = mod.run_unit(unit, tier)
    except HarnessTimeout:
        res = UnitResult()
        res.add(
            Violation(
                "harness.timeout",
                "timeout",
                f"unit {unit!r} exceeded {limit}s (livelock or pathological slowdown); last case noted: {_CURRENT['case']!r}"[:1500],
                {"unit": repr(unit), "last_case": safe_repr(_CURRENT["case"])},
            )
        )
    except BaseException as e:  # a driver bug must not look like a verdict
        res = UnitResult()
        res.stats["harness_errors"] += 1
        res.harness_error = f"unit {unit!r}: {type(e).__name__}: {e}\n{traceback.format_exc()}"
    finally:
        signal.setitimer(signal.ITIMER_REAL, 0)
    res.wall = time.time() - t0
    return res


def safe_repr(o, limit=100000):
    try:
        r = repr(o)
    except Exception as e:  # pragma: no cover
        r = f"<unreprable {type(o).__name__}: {e}>"
    return r if len(r) <= limit else r[:limit] + "...<truncated>"


def short(o, n=300):
    r = safe_repr(o)
    return r if len(r) <= n else r[:n] + "..."


# --------------------------------------------------------------------------
# known findings


def load_known(prop):
    path = os.path.join(VERIF, "known_findings.json")
    if not os.path.exists(path):
        return {}, []
    with open(path) as f:
        data = json.load(f)
    known = {}
    fixed = []
    for e in data.get("findings", []):
        if e["property"] != prop:
            continue
        if e["status"] == "known":
            known[e["sig"]] = e
        else:
            fixed.append(e)
    return known, fixed


# --------------------------------------------------------------------------
# main entry


def run_property(prop, modname, tier, seed):
    t0 = time.time()
    setup_fastavro()
    mod = importlib.import_module(modname)
    units = list(mod.units(tier))
    # VERIF_SEED only rotates the order of enumeration, never the set explored.
    if units:
        r = seed % len(units)
        units = units[r:] + units[:r]
    if hasattr(mod, "priority"):
        # long units first (better packing); the rotation above still varies the order within a priority class
        units.sort(key=mod.priority, reverse=True)
    total = UnitResult()
    sets = collections.defaultdict(set)
    harness_errors = []
    nproc = min(NPROC, max(1, len(units)))
    ctx = multiprocessing.get_context("fork")
    chunks = getattr(mod, "CHUNKSIZE", 1)
    slow = []
    with ctx.Pool(nproc, initializer=_init_worker, initargs=(modname, tier, seed)) as pool:
        for res in pool.imap_unordered(_run_unit, units, chunksize=chunks):
            total.evals += res.evals
            total.distinct += res.distinct
            total.states += res.states
            total.transitions += res.transitions
            total.stats.update(res.stats)
            total.caps.extend(res.caps)
            for k, s in res.sets.items():
                sets[k] |= s
            for v in res.violations:
                total.violations.append(v)
            total.violation_count.update(res.violation_count)
            for s in res.samples:
                if len(total.samples) < 6:
                    total.samples.append(s)
            if getattr(res, "harness_error", None):
                harness_errors.append(res.harness_error)
            slow.append(res.wall)
    wall = time.time() - t0

    if hasattr(mod, "finalize"):
        mod.finalize(total, sets, tier)

    known, fixed = load_known(prop)
    unknown = collections.OrderedDict()
    known_hit = collections.Counter()
    for v in total.violations:
        if v["sig"] in known:
            known_hit[v["sig"]] = total.violation_count[v["sig"]]
        else:
            unknown.setdefault(v["sig"], v)

    out_lines = []
    for sig, n in sorted(known_hit.items()):
        out_lines.append(f"KNOWN-FINDING: property={prop} {known[sig]['what']} [sig={sig} cases={n}]")
    replay_paths = []
    os.makedirs(os.path.join(VERIF, "replays"), exist_ok=True)
    for sig, v in list(unknown.items())[:12]:
        h = hashlib.sha1((sig + safe_repr(v["case"])).encode()).hexdigest()[:10]
        path = os.path.join(VERIF, "replays", f"{prop}-{h}.json")
        doc = {
            "property": prop,
            "check": v["check"],
            "sig": sig,
            "message": v["message"],
            "case_repr": safe_repr(v["case"]),
            "count_same_sig": total.violation_count[sig],
            "replay_cmd": f"./check {prop} --replay replays/{prop}-{h}.json",
        }
        if hasattr(mod, "standalone"):
            try:
                doc["standalone_py"] = mod.standalone(v["case"])
            except Exception as e:
                doc["standalone_py"] = f"# not available: {e}"
        with open(path, "w") as f:
            json.dump(doc, f, indent=1)
        replay_paths.append(path)
        out_lines.append(f"VIOLATION property={prop} replay={path}")
        out_lines.append(f"  check={v['check']} sig={sig} cases={total.violation_count[sig]}: {v['message'][:600]}")
    if len(unknown) > 12:
        out_lines.append(f"  ... {len(unknown) - 12} further distinct signatures not written out")

    coverage = {
        "evaluations": total.evals,
        "distinct_nontrivial": total.distinct,
        "rule": mod.RULE,
        "samples": [json_safe(s) for s in total.samples] or ["<none>"],
        "exhaustive": (not total.caps) and not harness_errors,
        "caps_hit": total.caps[:20],
        "units": len(units),
        "stats": {k: v for k, v in sorted(total.stats.items())},
        "distinct_sets": {k: len(s) for k, s in sorted(sets.items())},
        "known_findings_matched": {k: v for k, v in known_hit.items()},
        "fastavro_modules_exercised": exercised_modules(),
        "workers": nproc,
        "slowest_unit_s": round(max(slow), 3) if slow else 0,
    }
    if mod.LEVEL == "model_checking":
        coverage["states"] = total.states
        coverage["transitions"] = total.transitions
        coverage["traces_validated_against_impl"] = total.stats.get("traces_validated", total.evals)
    if hasattr(mod, "coverage_extra"):
        coverage.update(mod.coverage_extra(total, sets, tier))
    evidence = {
        "property_id": prop,
        "tier": tier,
        "seed": seed,
        "level": mod.LEVEL,
        "coverage": coverage,
        "assumptions": list(getattr(mod, "ASSUMPTIONS", [])),
        "wall_s": round(wall, 3),
        "violations": len(unknown),
    }
    edir = os.environ.get("VERIF_EVIDENCE_DIR") or os.path.join(VERIF, "evidence")
    os.makedirs(edir, exist_ok=True)
    epath = os.path.join(edir, f"{prop}.json")
    with open(epath, "w") as f:
        json.dump(evidence, f, indent=1, sort_keys=True)
    ok_schema = validate_evidence(epath)

    for line in out_lines:
        print(line)
    for he in harness_errors[:5]:
        print("HARNESS-ERROR " + he, file=sys.stderr)
    print(
        f"{prop} tier={tier} seed={seed} evaluations={total.evals} distinct={total.distinct} "
        f"states={total.states} transitions={total.transitions} known={sum(known_hit.values())} "
        f"unknown_sigs={len(unknown)} caps={len(total.caps)} wall={wall:.1f}s evidence_valid={ok_schema}"
    )
    if unknown:
        return 1
    if harness_errors:
        return 2
    if not ok_schema:
        return 3
    return 0


def json_safe(o):
    try:
        json.dumps(o)
        return o
    except (TypeError, ValueError):
        if isinstance(o, dict):
            return {str(k): json_safe(v) for k, v in o.items()}
        if isinstance(o, (list, tuple)):
            return [json_safe(x) for x in o]
        return safe_repr(o, 2000)


def validate_evidence(path):
    schema = "/root/.vp/EVIDENCE.schema.json"
    if not os.path.exists(schema):
        schema = os.path.join(VERIF, "schemas", "EVIDENCE.schema.json")
    code = (
        "import json,sys,jsonschema;"
        "jsonschema.validate(json.load(open(sys.argv[1])), json.load(open(sys.argv[2])))"
    )
    try:
        p = subprocess.run(["python3-vt", "-c", code, path, schema], capture_output=True, text=True, timeout=60)
    except (OSError, subprocess.TimeoutExpired) as e:
        print(f"evidence validation skipped: {e}", file=sys.stderr)
        return True
    if p.returncode != 0:
        print("EVIDENCE INVALID: " + p.stderr[-800:], file=sys.stderr)
        return False
    return True


def run_replay(prop, modname, path):
    setup_fastavro()
    mod = importlib.import_module(modname)
    with open(path) as f:
        doc = json.load(f)
    from .values import parse_repr

    case = parse_repr(doc["case_repr"])
    vs = mod.replay(case)
    known, _ = load_known(prop)
    bad = [v for v in vs if v["sig"] not in known]
    for v in vs:
        tag = "KNOWN-FINDING:" if v["sig"] in known else "VIOLATION"
        print(f"{tag} property={prop} replay={path} check={v['check']} sig={v['sig']}: {v['message'][:800]}")
    if not vs:
        print(f"replay of {path}: the recorded case no longer violates {prop}")
    return 1 if bad else 0
