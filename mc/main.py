import argparse
import os
import sys

from . import harness


def main():
    ap = argparse.ArgumentParser()
    ap.add_argument("prop")
    ap.add_argument("--tier", default=os.environ.get("VERIF_TIER", "quick"), choices=["quick", "thorough"])
    ap.add_argument("--replay")
    a = ap.parse_args()
    prop = a.prop.upper()
    modname = f"mc.props.{prop.lower()}"
    seed = int(os.environ.get("VERIF_SEED", "0") or 0)
    if a.replay:
        sys.exit(harness.run_replay(prop, modname, a.replay))
    sys.exit(harness.run_property(prop, modname, a.tier, seed))


if __name__ == "__main__":
    main()
