"""The schema family (DESIGN.md section 3): atoms, depth-1/2/3 constructions and
the hand-written named-type family.  Every schema is a fresh JSON value."""
import copy
import itertools
import json

PRIMS = ["null", "boolean", "int", "long", "float", "double", "bytes", "string"]


def E():
    return {"type": "enum", "name": "E", "symbols": ["A", "B", "C"]}


def E2():
    return {"type": "enum", "name": "E2", "symbols": ["B", "Z"]}


def F(size=2, name="F"):
    return {"type": "fixed", "name": name, "size": size}


def R1():
    return {"type": "record", "name": "R1", "fields": [{"name": "x", "type": "int"}]}


def atoms():
    return list(PRIMS) + [E(), F()]


def kind(s):
    if isinstance(s, list):
        return "union"
    if isinstance(s, dict):
        return s["type"]
    return s


def _names_defined(s, acc):
    if isinstance(s, list):
        for b in s:
            _names_defined(b, acc)
    elif isinstance(s, dict):
        t = s["type"]
        if t in ("record", "enum", "fixed", "error"):
            acc.append(s["name"])
        if t == "record":
            for f in s["fields"]:
                _names_defined(f["type"], acc)
        elif t == "array":
            _names_defined(s["items"], acc)
        elif t == "map":
            _names_defined(s["values"], acc)
    return acc


def dedupe(s, seen=None):
    """Keep the first definition of each (namespace-free) name, replace later
    identical ones by the bare name: this is how by-name references arise."""
    seen = set() if seen is None else seen
    if isinstance(s, list):
        return [dedupe(b, seen) for b in s]
    if isinstance(s, dict):
        t = s["type"]
        if t in ("record", "enum", "fixed"):
            if s["name"] in seen:
                return s["name"]
            seen.add(s["name"])
        s = dict(s)
        if t == "record":
            s["fields"] = [dict(f, type=dedupe(f["type"], seen)) for f in s["fields"]]
        elif t == "array":
            s["items"] = dedupe(s["items"], seen)
        elif t == "map":
            s["values"] = dedupe(s["values"], seen)
        return s
    return s


def union_legal(branches):
    ks = []
    for b in branches:
        k = kind(b)
        if k == "union":
            return False
        if k in ("record", "enum", "fixed"):
            ks.append(("named", b["name"]))
        elif isinstance(b, str) and b not in PRIMS:
            ks.append(("named", b))
        else:
            ks.append(k)
    return len(set(ks)) == len(ks)


_DEFAULTS = {
    "null": None, "boolean": True, "int": 7, "long": -5, "float": 1.5, "double": 2.25, "string": "dflt",
    "enum": "B", "array": [], "map": {},
}


def default_for(s):
    """A default that is its own Python representation, or no default (KeyError)."""
    k = kind(s)
    if k == "union":
        return default_for(s[0])
    if k == "array":
        return []
    if k == "map":
        return {}
    if k == "record":
        return {f["name"]: default_for(f["type"]) for f in s["fields"]}
    return _DEFAULTS[k]


def rec(name, *ftypes, defaults=()):
    fields = []
    for i, t in enumerate(ftypes):
        f = {"name": "abcdefgh"[i], "type": copy.deepcopy(t)}
        if i in defaults:
            try:
                f["default"] = default_for(t)
            except KeyError:
                pass
        fields.append(f)
    return {"type": "record", "name": name, "fields": fields}


def depth1(children, tier, tag=""):
    out = []
    ch = [copy.deepcopy(c) for c in children]
    for c in ch:
        out.append({"type": "array", "items": copy.deepcopy(c)})
        out.append({"type": "map", "values": copy.deepcopy(c)})
        out.append(rec("R" + tag, c))
        out.append(rec("R" + tag, c, defaults=(0,)))
        if kind(c) not in ("union", "null"):
            out.append(rec("R" + tag, ["null", copy.deepcopy(c)]))  # null-accepting, no default
            out.append(rec("R" + tag, ["null", copy.deepcopy(c)], defaults=(0,)))
            out.append(rec("R" + tag, [copy.deepcopy(c), "null"], defaults=(0,)))  # non-null default, null allowed
    out.append(rec("R" + tag))
    for a, b in itertools.permutations(range(len(ch)), 2):
        if union_legal([ch[a], ch[b]]):
            out.append([copy.deepcopy(ch[a]), copy.deepcopy(ch[b])])
    for a, b in itertools.product(range(len(ch)), repeat=2):
        out.append(rec("R" + tag, ch[a], ch[b]))
    for c in ch:
        out.append(rec("R" + tag, c, "int", defaults=(0,)))
        out.append(rec("R" + tag, "int", c, defaults=(1,)))
    if tier == "thorough":
        for tr in itertools.permutations(range(len(ch)), 3):
            bs = [ch[i] for i in tr]
            if union_legal(bs):
                out.append(copy.deepcopy(bs))
    return [dedupe(s) for s in out]


def child_set():
    return ["null", "int", "string", E(), R1(), {"type": "array", "items": "int"}, {"type": "map", "values": "string"},
            ["null", "int"]]


def named_family():
    """Every way a second use of a named type can be spelled; namespaces; recursion."""
    out = []
    # inline first, then by name; full / relative / dotted
    out.append(rec("R", E(), "E"))
    out.append(rec("R", F(), "F", E(), "E"))
    out.append({"type": "record", "name": "R", "namespace": "n", "fields": [
        {"name": "a", "type": E()}, {"name": "b", "type": "E"}, {"name": "c", "type": "n.E"}]})
    out.append({"type": "record", "name": "n.m.R", "fields": [
        {"name": "a", "type": F()}, {"name": "b", "type": "n.m.F"}, {"name": "c", "type": {"type": "array", "items": "F"}}]})
    out.append({"type": "record", "name": "R", "namespace": "n", "fields": [
        {"name": "a", "type": {"type": "enum", "name": "o.E", "symbols": ["A", "B"]}},
        {"name": "b", "type": "o.E"},
        {"name": "c", "type": {"type": "record", "name": "S", "fields": [{"name": "e", "type": "o.E"}, {"name": "r", "type": ["null", "R"]}]}},
    ]})
    out.append({"type": "record", "name": "R", "namespace": "n", "fields": [
        {"name": "a", "type": {"type": "record", "name": "S", "namespace": "", "fields": [
            {"name": "e", "type": {"type": "enum", "name": "E", "symbols": ["A", "B"]}}, {"name": "e2", "type": "E"}]}},
        {"name": "b", "type": {"type": "enum", "name": "E", "symbols": ["X", "Y"]}},
        {"name": "c", "type": "E"}]})
    out.append({"type": "record", "name": "R", "namespace": "n", "fields": [
        {"name": "a", "type": {"type": "record", "name": "S", "fields": [
            {"name": "t", "type": {"type": "record", "name": "T", "fields": [{"name": "e", "type": {"type": "enum", "name": "E", "symbols": ["A"]}}]}}]}},
        {"name": "b", "type": "n.T"}, {"name": "c", "type": "E"}, {"name": "d", "type": {"type": "map", "values": "S"}}]})
    # recursion through a union, an array, a map
    out.append({"type": "record", "name": "Node", "fields": [
        {"name": "value", "type": "int"}, {"name": "next", "type": ["null", "Node"]}]})
    out.append({"type": "record", "name": "T", "fields": [
        {"name": "v", "type": "int"}, {"name": "kids", "type": {"type": "array", "items": "T"}}]})
    out.append({"type": "record", "name": "M", "namespace": "ns", "fields": [
        {"name": "v", "type": "string"}, {"name": "m", "type": {"type": "map", "values": "M"}}]})
    out.append({"type": "record", "name": "P", "fields": [
        {"name": "c", "type": {"type": "record", "name": "C", "fields": [{"name": "p", "type": ["null", "P"]}, {"name": "n", "type": "long"}]}},
        {"name": "cs", "type": {"type": "array", "items": "C"}}]})
    # named types at top level inside unions / arrays
    out.append([E(), F(), R1()])
    # primitives spelled in dict form inside unions (float before a dict-form double), single-branch unions
    out.append(["float", {"type": "double"}])
    out.append(["null", "float", {"type": "double", "unit": "m"}, {"type": "string"}])
    out.append(rec("R", ["string"], {"type": "array", "items": ["int"]}, {"type": "map", "values": [R1()]}))
    out.append(["long"])
    # the 'error' spelling of a record
    out.append({"type": "error", "name": "Err", "fields": [{"name": "msg", "type": "string"}, {"name": "code", "type": "int", "default": 7}]})
    out.append(rec("R", {"type": "error", "name": "Err", "fields": [{"name": "m", "type": "string"}]}, ["null", "Err"]))
    # branch names that are suffixes of one another, with fields of different types (a hint must match exactly)
    out.append([{"type": "record", "name": "ZEvent", "fields": [{"name": "v", "type": "boolean"}]},
                {"type": "record", "name": "Event", "fields": [{"name": "v", "type": "string"}]},
                {"type": "enum", "name": "OtherKind", "symbols": ["A", "B"]}, {"type": "enum", "name": "Kind", "symbols": ["B", "A"]}])
    # unions of records where a later branch is recursive / uses its own nested named type twice
    out.append([R1(), {"type": "record", "name": "Node", "fields": [{"name": "value", "type": "int"}, {"name": "next", "type": ["null", "Node"]}]}])
    out.append(["null", {"type": "record", "name": "Fst", "fields": [{"name": "q", "type": "string"}]},
                {"type": "record", "name": "Snd", "fields": [{"name": "e", "type": {"type": "enum", "name": "Es", "symbols": ["A", "B"]}}, {"name": "e2", "type": "Es"},
                                                             {"name": "es", "type": {"type": "array", "items": "Es"}}]}])
    out.append(["null", R1(), {"type": "record", "name": "R2", "fields": [{"name": "x", "type": "int"}, {"name": "y", "type": ["null", "R1"], "default": None}]}])
    out.append({"type": "array", "items": [R1(), "null", {"type": "map", "values": "R1"}]})
    out.append({"type": "map", "values": {"type": "array", "items": {"type": "map", "values": ["int", "string"]}}})
    # a named type whose name contains "null" (substring test in write_record)
    out.append({"type": "record", "name": "R", "fields": [
        {"name": "a", "type": {"type": "record", "name": "nullable", "fields": [{"name": "x", "type": "int", "default": 1}]}},
        {"name": "b", "type": "nullable"}]})
    # bytes / fixed defaults in the specification's string form
    out.append({"type": "record", "name": "BD", "fields": [
        {"name": "k", "type": "int"}, {"name": "b", "type": "bytes", "default": "\u00ff\u0001"},
        {"name": "f", "type": {"type": "fixed", "name": "F2", "size": 2}, "default": "ab"}, {"name": "g", "type": "F2", "default": "\u0000\u00fe"},
        {"name": "r", "type": {"type": "record", "name": "In", "fields": [{"name": "x", "type": "bytes"}]}, "default": {"x": "zz"}},
        {"name": "u", "type": ["bytes", "null"], "default": "q"}]})
    # record branches for which a conforming datum may name no field at all: a field-less marker record, an all-defaults record
    ping = {"type": "record", "name": "Ping", "fields": []}
    alld = {"type": "record", "name": "AllDef", "fields": [{"name": "a", "type": "int", "default": 1}, {"name": "b", "type": "string", "default": "x"}]}
    out.append(["null", ping])
    out.append([copy.deepcopy(ping), "string", copy.deepcopy(alld)])
    out.append(rec("R", ["null", copy.deepcopy(alld)], {"type": "array", "items": ["int", copy.deepcopy(ping)]}))
    # null-namespace types nested in a namespaced record, below a NON-record top level (a pre-parsed array/map is parsed again)
    shop = {"type": "record", "name": "Order", "namespace": "shop", "fields": [
        {"name": "item", "type": {"type": "record", "name": "Item", "namespace": "", "fields": [
            {"name": "kind", "type": {"type": "enum", "name": "Kind", "namespace": "", "symbols": ["A", "B"]}}, {"name": "k2", "type": "Kind"}]}},
        {"name": "n", "type": "int", "default": 1}]}
    out.append({"type": "array", "items": copy.deepcopy(shop)})
    out.append({"type": "map", "values": ["null", copy.deepcopy(shop)]})
    # the same with the null-namespace enum as a SIBLING of the null-namespace record that refers to it by bare name
    shop2 = {"type": "record", "name": "Outer", "namespace": "shop", "fields": [
        {"name": "kind", "type": {"type": "enum", "name": "Kind", "namespace": "", "symbols": ["A", "B", "C"]}},
        {"name": "item", "type": {"type": "record", "name": "Item", "namespace": "", "fields": [{"name": "kind", "type": "Kind"}, {"name": "n", "type": "long"}]}},
        {"name": "fx", "type": {"type": "fixed", "name": "Fx", "namespace": "", "size": 1}},
        {"name": "inner", "type": {"type": "record", "name": "Inner", "namespace": "", "fields": [{"name": "f", "type": "Fx"}, {"name": "i", "type": ["null", "Item"]}]}}]}
    out.append({"type": "array", "items": copy.deepcopy(shop2)})
    out.append({"type": "map", "values": copy.deepcopy(shop2)})
    out.append(copy.deepcopy(shop2))
    # record fields whose union holds a string branch next to a float/double branch (number-like words are strings)
    out.append(rec("R", ["string", "double"], ["null", "string", "float"], ["double", "string"]))
    out.append(rec("R", ["double", "string"]))
    out.append(rec("R", ["float", "string"], "int"))
    # record branches that differ only in the item type of an array field (an item-wise check must look at every item)
    narrow = {"type": "record", "name": "Narrow", "fields": [{"name": "vals", "type": {"type": "array", "items": "int"}}]}
    wide = {"type": "record", "name": "Wide", "fields": [{"name": "vals", "type": {"type": "array", "items": "long"}}]}
    out.append([copy.deepcopy(narrow), copy.deepcopy(wide)])
    out.append(rec("R", ["null", copy.deepcopy(narrow), copy.deepcopy(wide)]))
    # record branches with the SAME field names whose types differ in range (a shortcut by field names must still validate)
    r32 = {"type": "record", "name": "Cents32", "fields": [{"name": "value", "type": "int"}]}
    r64 = {"type": "record", "name": "Cents64", "fields": [{"name": "value", "type": "long"}]}
    out.append([copy.deepcopy(r32), copy.deepcopy(r64)])
    out.append(rec("R", ["null", copy.deepcopy(r32), copy.deepcopy(r64)]))
    out.append(["null"])
    # {"type": "int"}-style wrapped primitives
    out.append(rec("R", {"type": "int"}, {"type": "string"}, {"type": "null"}))
    out.append({"type": "array", "items": {"type": "long"}})
    # fixed sizes
    for size in (0, 1, 16):
        out.append(rec("R", F(size), "int"))
    # enum with one symbol, many symbols (two-byte index)
    out.append({"type": "enum", "name": "Big", "symbols": ["S%d" % i for i in range(70)]})
    out.append(rec("R", "int", {"type": "enum", "name": "Big", "symbols": ["S%d" % i for i in range(70)]}, "int"))
    # record field named like a map key / keyword-ish names
    out.append({"type": "record", "name": "R", "fields": [
        {"name": "type", "type": "string"}, {"name": "name", "type": {"type": "map", "values": "int"}}, {"name": "fields", "type": "int"}]})
    return out


def logical_extras():
    """Schemas with logical annotations, for the drivers whose oracle works at the level of logical values (C01/C02);
    the shared family stays free of them (several drivers reason about the underlying types only)."""
    return [
        # decimals wider than the 28 digits of Python's default decimal context
        rec("R", {"type": "bytes", "logicalType": "decimal", "precision": 38, "scale": 9},
            {"type": "fixed", "name": "D16", "size": 16, "logicalType": "decimal", "precision": 38, "scale": 0},
            {"type": "map", "values": {"type": "bytes", "logicalType": "decimal", "precision": 30, "scale": 30}}),
        rec("R", {"type": "string", "logicalType": "uuid"}, ["null", {"type": "string", "logicalType": "uuid"}], {"type": "map", "values": {"type": "string", "logicalType": "uuid"}}),
        # a float/double branch listed before a decimal branch: a Decimal is not a float
        ["null", "double", {"type": "bytes", "logicalType": "decimal", "precision": 38, "scale": 9}],
        rec("R", ["float", {"type": "bytes", "logicalType": "decimal", "precision": 6, "scale": 2}], "long"),
    ]


_CACHE = {}


def schemas(tier):
    if tier in _CACHE:
        return _CACHE[tier]
    out = []
    out += [copy.deepcopy(a) for a in atoms()]
    out += depth1(atoms(), tier)
    out += depth1(child_set(), tier, tag="o")
    if tier == "thorough":
        d2 = depth1(child_set(), "quick", tag="p")
        picks = [s for i, s in enumerate(d2) if i % 7 == 0][:24]
        third = []
        for s in picks:
            names = set(_names_defined(s, []))
            if names & {"Rq"}:
                continue
            third += depth1([s, "int"], "quick", tag="q")
        out += third
    out += named_family()
    # drop exact duplicates (by JSON text)
    seen = set()
    uniq = []
    for s in out:
        t = json.dumps(s, sort_keys=True)
        if t not in seen:
            seen.add(t)
            uniq.append(s)
    _CACHE[tier] = uniq
    return uniq
