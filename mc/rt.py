"""Shared round-trip core for C01 / C02 (and reused by C09, C12, C20):
one (schema, datum) case against the reference model."""
import io

from .harness import Violation, short, note_case
from .values import same, key
from .ref import names, conform, binary


class Case:
    __slots__ = ("raw", "schema", "node", "defs", "form")

    def __init__(self, raw, schema, node, defs, form):
        self.raw, self.schema, self.node, self.defs, self.form = raw, schema, node, defs, form


def exc_tag(e):
    return type(e).__name__


def evaluate(fa, c, datum, checks, opts=None, tuples=True):
    """checks: set of {"c01", "c02"}.  Returns list[Violation]."""
    out = []
    opts = opts or {}
    info = {"schema": c.raw, "form": c.form, "datum": datum, "opts": opts}
    note_case(info)
    k0 = key(datum)

    def V(check, sig, msg):
        out.append(Violation(check, sig, f"{msg} | schema={short(c.raw, 400)} form={c.form} datum={short(datum, 300)}", info))

    fo = io.BytesIO()
    try:
        fa.schemaless_writer(fo, c.schema, datum, **opts)
    except Exception as e:
        V("rt.write", f"write-raised:{exc_tag(e)}", f"schemaless_writer raised {type(e).__name__}: {e} on a conforming datum")
        return out
    raw = fo.getvalue()
    if key(datum) != k0:
        V("rt.input-intact", "datum-mutated-by-writer", "the writer modified the datum object it was given")
    idx = None
    try:
        rv, pos, idx = binary.decode(c.node, c.defs, raw)
    except binary.DecodeError as e:
        if "c02" in checks:
            V("c02.independent-decode", "ref-decode-failed", f"independent decoder cannot decode the bytes {raw[:60].hex()}: {e}")
        rv = None
    if idx is not None:
        if pos != len(raw) and "c02" in checks:
            V("c02.independent-decode", "ref-decode-trailing", f"independent decoder consumed {pos} of {len(raw)} bytes")
        try:
            expected = conform.normalise(c.node, c.defs, datum, conform.Indices(idx), tuples)
        except Exception as e:
            expected = None
            if "c02" in checks:
                V("c02.branch", "choices-unusable", f"written union indices {idx} do not fit the datum: {type(e).__name__}: {e}")
        if "c01" in checks and "c02" not in checks and expected is not None:
            # a value that went to a branch it does not conform to cannot come back as the value it was
            for kind, path, what in conform.check_choices(c.node, c.defs, datum, conform.Indices(idx), tuples):
                if kind == "chosen-branch-does-not-conform":
                    V("c01.value", "roundtrip-through-nonconforming-branch", f"{kind} at {path}: {what}")
        if "c02" in checks and expected is not None:
            probs = conform.check_choices(c.node, c.defs, datum, conform.Indices(idx), tuples)
            for kind, path, what in probs:
                if kind == "rule-mismatch" or kind == "hint-not-honoured":
                    continue  # C09's business
                V("c02.branch", kind, f"{kind} at {path}: {what}")
            if not same(rv, expected) and not same(_logical_view(c, rv), expected):
                V("c02.value", "ref-decode-different-value", f"independent decoder recovers {short(rv)} from the bytes, normalised datum is {short(expected)}")
            else:
                try:
                    again = binary.encode(c.node, c.defs, rv, conform.Indices(idx))
                except Exception as e:  # pragma: no cover
                    again = None
                    V("c02.bytes", "ref-encode-failed", f"reference encoder failed: {e}")
                if again is not None and again != raw:
                    V("c02.bytes", "bytes-differ-from-spec", f"bytes {raw[:80].hex()} differ from the specification's encoding {again[:80].hex()}")
    else:
        try:
            expected = conform.normalise(c.node, c.defs, datum, None, tuples)
        except Exception:
            expected = None
    if "c01" in checks:
        fo.seek(0)
        try:
            got = fa.schemaless_reader(fo, c.schema)
        except Exception as e:
            V("c01.read", f"read-raised:{exc_tag(e)}", f"schemaless_reader raised {type(e).__name__}: {e} on bytes {raw[:60].hex()}")
            return out
        if expected is not None and not same(got, expected):
            V("c01.value", "roundtrip-different-value", f"read back {short(got)}, expected {short(expected)}")
        if fo.tell() != len(raw):
            V("c01.position", "reader-position", f"reader stopped at {fo.tell()} of {len(raw)} bytes")
        # the same bytes (twice) behind a buffered reader with a tiny buffer, like a file opened 'rb' but with its buffer
        # boundaries falling inside almost every multi-byte item; such streams also offer peek()
        if len(raw) > 1:
            for bs in (2, 7):
                br = io.BufferedReader(io.BytesIO(raw + raw), buffer_size=bs)
                try:
                    g1 = fa.schemaless_reader(br, c.schema)
                    g2 = fa.schemaless_reader(br, c.schema)
                    rest = br.read()
                except Exception as e:
                    V("c01.read", f"read-raised:{exc_tag(e)}:buffered-stream", f"reading through a BufferedReader (buffer {bs}) raised {type(e).__name__}: {e} on bytes {raw[:60].hex()}")
                    break
                if not (same(g1, got) and same(g2, got) and rest == b""):
                    V("c01.value", "buffered-stream-differs", f"through a BufferedReader (buffer {bs}): {short(g1, 120)}, {short(g2, 120)}, {len(rest)} bytes left; through BytesIO {short(got, 120)}")
                    break
        # two values back to back on one stream
        fo2 = io.BytesIO()
        try:
            fa.schemaless_writer(fo2, c.schema, datum, **opts)
            fa.schemaless_writer(fo2, c.schema, datum, **opts)
            two = fo2.getvalue()
            fo2.seek(0)
            g1 = fa.schemaless_reader(fo2, c.schema)
            p1 = fo2.tell()
            g2 = fa.schemaless_reader(fo2, c.schema)
            p2 = fo2.tell()
            if two != raw + raw:
                V("c01.back-to-back", "second-write-differs", "writing the same datum twice on one stream does not give the bytes twice")
            elif not (same(g1, got) and same(g2, got) and p1 == len(raw) and p2 == 2 * len(raw)):
                V("c01.back-to-back", "back-to-back-read", f"values written back to back read as {short(g1, 120)} @{p1}, {short(g2, 120)} @{p2}")
        except Exception as e:
            V("c01.back-to-back", f"back-to-back-raised:{exc_tag(e)}", f"{type(e).__name__}: {e}")
    return out


def _logical_view(c, rv):
    """The independently decoded (underlying) value seen through the schema's logical annotations."""
    try:
        from .ref import logical

        return logical.from_underlying_deep(c.node, c.defs, rv)
    except Exception:
        return rv


def prepare(fa, raw):
    """-> list[Case] for the raw and the pre-parsed form of a schema."""
    import copy

    node, defs = names.resolve(raw)
    out = [Case(raw, copy.deepcopy(raw), node, defs, "raw")]
    parsed = fa.parse_schema(copy.deepcopy(raw))
    out.append(Case(raw, parsed, node, defs, "parsed"))
    if isinstance(raw, list) and any(isinstance(b, dict) and b.get("type") == "record" for b in raw):
        # a top-level union handed over as a list whose record branches were each parsed on their own
        try:
            each = []
            standalone = True
            for b in raw:
                if isinstance(b, dict) and b.get("type") == "record":
                    each.append(fa.parse_schema(copy.deepcopy(b)))
                else:
                    each.append(copy.deepcopy(b))
            names.resolve([copy.deepcopy(b) for b in raw])
            out.append(Case(raw, each, node, defs, "parsed-each"))
        except Exception:
            pass  # a branch refers to a type of another branch: cannot be parsed alone
    return out
