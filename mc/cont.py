"""Container-file case family shared by C04, C05, C06, C07."""
import copy
import hashlib
import os

from .ref import names, conform
from . import alphabet

CODECS = ["null", "deflate", "bzip2", "xz"]


def sync_marker():
    seed = os.environ.get("VERIF_SEED", "0")
    return hashlib.blake2b(("sync" + seed).encode(), digest_size=16).digest()


def available_codecs(fa_write):
    """Codecs of the statement; optional ones only when their library imports."""
    out = list(CODECS)
    unavailable = []
    for name, mod in (("snappy", "cramjam"), ("zstandard", "zstandard"), ("lz4", "lz4.block")):
        try:
            __import__(mod)
            out.append(name)
        except ImportError:
            unavailable.append(name)
    return out, unavailable


REC = {"type": "record", "name": "Rec", "namespace": "ns", "fields": [
    {"name": "id", "type": "long"}, {"name": "s", "type": "string"}, {"name": "u", "type": ["null", "double"], "default": None},
    {"name": "e", "type": {"type": "enum", "name": "Suit", "symbols": ["S", "H"]}}, {"name": "e2", "type": "Suit", "default": "H"}]}
LIST = {"type": "record", "name": "Node", "fields": [{"name": "v", "type": "int"}, {"name": "next", "type": ["null", "Node"]}]}


def top_schemas():
    out = []
    for p in ["null", "boolean", "int", "long", "float", "double", "bytes", "string"]:
        out.append((p, p))
    out.append(("record", copy.deepcopy(REC)))
    out.append(("enum", {"type": "enum", "name": "E", "symbols": ["A", "B", "C"]}))
    out.append(("fixed", {"type": "fixed", "name": "F", "size": 3}))
    out.append(("array", {"type": "array", "items": "int"}))
    out.append(("map", {"type": "map", "values": "string"}))
    out.append(("union", ["null", "long", "string", {"type": "record", "name": "U", "fields": [{"name": "x", "type": "int"}]}]))
    out.append(("empty-record", {"type": "record", "name": "Empty", "fields": []}))
    out.append(("null-record", {"type": "record", "name": "N", "fields": [{"name": "n", "type": "null"}]}))
    out.append(("recursive", copy.deepcopy(LIST)))
    out.append(("wrapped-prim", {"type": "string"}))
    out.append(("null-namespace-nested", {"type": "record", "name": "Top", "namespace": "com.example", "fields": [
        {"name": "node", "type": {"type": "record", "name": "Node", "namespace": "", "fields": [{"name": "v", "type": "int"}, {"name": "k", "type": {"type": "enum", "name": "K", "symbols": ["A", "B"]}}]}},
        {"name": "f", "type": {"type": "fixed", "name": "Fx", "namespace": "", "size": 2}},
        {"name": "inner", "type": {"type": "record", "name": "Node", "fields": [{"name": "w", "type": "string"}]}},
        {"name": "again", "type": ["null", "Node"], "default": None}]}))
    return out


def record_lists(raw):
    node, defs = names.resolve(raw)
    vs = [d for d, c in alphabet.data_for(node, defs, 1, hints=False, big=False)]
    b = vs[0]
    alts = vs[1:]
    out = [("empty", [])]
    out.append(("one", [b]))
    mixed = [b] + alts[:2] + [b]
    out.append(("mixed", mixed))
    out.append(("seven", [alts[i % len(alts)] if alts and i % 2 else b for i in range(7)]))
    # one record larger than small intervals
    big = None
    n = names.deref(node, defs)
    if n["k"] == "string":
        big = "z" * 300
    elif n["k"] == "bytes":
        big = b"q" * 300
    elif n["k"] == "array":
        big = list(range(200))
    elif n["k"] == "map":
        big = {"k%d" % i: "v" * 5 for i in range(40)}
    elif n["k"] == "record" and any(f["name"] == "s" for f in n["fields"]):
        big = dict(b, s="y" * 300)
    elif n["k"] == "union":
        big = "w" * 300
    if big is not None:
        out.append(("big", [b, big, b]))
    return out, node, defs


def expected(node, defs, recs):
    return [conform.normalise(node, defs, r) for r in recs]
