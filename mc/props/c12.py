"""C12 — parsing is idempotent; raw, parsed and piecewise-parsed schemas behave
alike under every public operation."""
import copy
import io
import itertools
import json
import random

from ..harness import UnitResult, Violation, short, note_case
from .. import family, alphabet
from ..values import same, key
from ..ref import names, conform, canon

LEVEL = "exploration"
RULE = (
    "every schema of the family holding 1..4 named types x EVERY subset of its non-top named types hoisted out: each "
    "hoisted type is parsed on its own (dependencies first) against one shared named-schema dictionary and only referred "
    "to by full name from the rest x the operations {schemaless write+read, use as READER schema over data written with the raw "
    "form (schemaless and container), container write then read from the bytes alone, JSON write+read, validate, canonical form, generate_one under a fixed random source, parse_schema of the parsed "
    "form} x D_1 data. Oracle: identical bytes / values / texts for the raw, the parsed and the piecewise form (raw is the "
    "reference form; its own correctness is C01-C15's business); parse_schema(parsed) returns the same object for records "
    "and an equal one otherwise. distinct_nontrivial = distinct (schema, hoisted subset, operation, datum) tuples; subsets "
    "hoisting at least one type are the non-trivial ones."
    ' Operation read-with-options reads under return_record_name / return_named_type and their override variants, schemaless and container.'
)
ASSUMPTIONS = [
    "hoisting the top-level type itself is not expressible (a bare name cannot carry its table) and is left out; only top-level records are used, because only parsed records carry the name table (anchor: __named_schemas inside parsed record schemas)",
    "subsets whose pieces would need a type that is not yet defined (mutual recursion) are skipped and counted",
    "pure-Python fastavro only (Cython absent)",
]
UNIT_TIMEOUT_S = 1200
PRIMS = family.PRIMS


def named_types(raw):
    """[(fullname, enclosing namespace at the definition)] in definition order."""
    out = []

    def walk(s, ns):
        if isinstance(s, list):
            for b in s:
                walk(b, ns)
        elif isinstance(s, dict):
            t = s.get("type")
            if t in ("record", "enum", "fixed", "error"):
                space, full = names.fullname(s["name"], s.get("namespace", names.MISSING), ns)
                out.append(full)
                if t in ("record", "error"):
                    for f in s["fields"]:
                        walk(f["type"], space)
            elif t == "array":
                walk(s["items"], ns)
            elif t == "map":
                walk(s["values"], ns)

    walk(raw, "")
    return out


def split(raw, hoist):
    """-> (pieces, main): definitions in `hoist` taken out (inner first) and replaced by
    their full names; every remaining name spelled explicitly (name + namespace)."""
    pieces = []

    def walk(s, ns, top):
        if isinstance(s, list):
            return [walk(b, ns, False) for b in s]
        if isinstance(s, str):
            if s in PRIMS:
                return s
            return s if "." in s else (ns + "." + s if ns else s)
        t = s.get("type")
        if t in ("record", "enum", "fixed", "error"):
            space, full = names.fullname(s["name"], s.get("namespace", names.MISSING), ns)
            d = {k: v for k, v in s.items() if k not in ("namespace",)}
            d["name"] = full.rsplit(".", 1)[-1]
            d["namespace"] = space
            if t in ("record", "error"):
                d["fields"] = [dict(f, type=walk(f["type"], space, False)) for f in s["fields"]]
            if full in hoist and not top:
                pieces.append(d)
                return full
            return d
        if t == "array":
            return dict(s, items=walk(s["items"], ns, False))
        if t == "map":
            return dict(s, values=walk(s["values"], ns, False))
        return s

    main = walk(copy.deepcopy(raw), "", True)
    return pieces, main


def build_piecewise(fa, raw, hoist):
    pieces, main = split(raw, hoist)
    table = {}
    for p in pieces:
        fa.parse_schema(p, table)
    return fa.parse_schema(main, table), pieces, main


EXTRA = [
    {"type": "record", "name": "Money", "namespace": "fin", "fields": [
        {"name": "amount", "type": {"type": "fixed", "name": "Dec8", "size": 8, "logicalType": "decimal", "precision": 12, "scale": 2}},
        {"name": "fee", "type": ["null", "Dec8"], "default": None},
        {"name": "day", "type": {"type": "int", "logicalType": "date"}},
        {"name": "inner", "type": {"type": "record", "name": "Line", "fields": [{"name": "d", "type": "fin.Dec8"}, {"name": "k", "type": {"type": "enum", "name": "Kind", "symbols": ["A", "B"]}}, {"name": "k2", "type": "Kind"}]}}]},
    {"type": "record", "name": "Ticket", "namespace": "tk", "fields": [
        {"name": "id", "type": "int"},
        {"name": "priority", "type": {"type": "enum", "name": "Level", "symbols": ["LOW", "MID", "HIGH"]}, "default": "LOW"},
        {"name": "urgency", "type": "Level", "default": "HIGH"}, {"name": "impact", "type": "tk.Level", "default": "MID"},
        {"name": "where", "type": {"type": "record", "name": "Pt", "fields": [{"name": "x", "type": "int"}]}, "default": {"x": -1}}, {"name": "dest", "type": "Pt", "default": {"x": 9}},
        {"name": "tag", "type": {"type": "fixed", "name": "Tg", "size": 2}, "default": "ab"}, {"name": "tag2", "type": "Tg", "default": "cd"}]},
    {"type": "record", "name": "Pick", "namespace": "pk", "fields": [
        {"name": "u", "type": [
            {"type": "record", "name": "Small", "fields": [{"name": "a", "type": "int", "default": 0}, {"name": "b", "type": "int", "default": 0}]},
            {"type": "record", "name": "Large", "fields": [{"name": "a", "type": "int", "default": 0}, {"name": "b", "type": "int", "default": 0}, {"name": "c", "type": "int", "default": 0}]}]},
        {"name": "us", "type": {"type": "array", "items": ["null", "Small", "Large"]}, "default": []}]},
    # a union of records INSIDE a type that a piecewise schema reaches only by name (reader options must arrive there too)
    {"type": "record", "name": "Shop", "namespace": "zoo", "fields": [
        {"name": "cage", "type": {"type": "record", "name": "Cage", "fields": [
            {"name": "animal", "type": [{"type": "record", "name": "Dog", "fields": [{"name": "tricks", "type": "int"}]},
                                        {"type": "record", "name": "Cat", "fields": [{"name": "lives", "type": "int"}]}]},
            {"name": "label", "type": "string", "default": "none"}]}},
        {"name": "spare", "type": ["null", "Cage"], "default": None}, {"name": "all", "type": {"type": "array", "items": "zoo.Cage"}, "default": []}]},
    # named types first mentioned inside an "error" record
    {"type": "record", "name": "Call", "namespace": "svc", "fields": [
        {"name": "failure", "type": {"type": "error", "name": "Failure", "fields": [
            {"name": "detail", "type": {"type": "record", "name": "Detail", "fields": [{"name": "code", "type": "int"}]}},
            {"name": "more", "type": {"type": "array", "items": "Detail"}}, {"name": "level", "type": {"type": "enum", "name": "Level", "symbols": ["LOW", "HIGH"]}}]}},
        {"name": "last", "type": ["null", "Detail"], "default": None}, {"name": "lvl", "type": "svc.Level", "default": "LOW"}]},
    {"type": "error", "name": "TopFailure", "namespace": "svc", "fields": [
        {"name": "detail", "type": {"type": "record", "name": "Detail", "fields": [{"name": "code", "type": "int"}]}}, {"name": "again", "type": {"type": "map", "values": "Detail"}}]},
    # one named record used twice: first in the first field (the one a later reader drops), then again
    {"type": "record", "name": "Trip", "namespace": "geo", "fields": [
        {"name": "start", "type": {"type": "record", "name": "Place", "fields": [{"name": "lat", "type": "double"}, {"name": "tag", "type": "string"}]}},
        {"name": "end", "type": "Place"}, {"name": "stops", "type": {"type": "array", "items": "geo.Place"}}, {"name": "n", "type": "int"}]},
    # seven named types nested by reference, an array innermost (generation must not depend on how deep the by-name chain is)
    {"type": "record", "name": "N1", "namespace": "deep", "fields": [{"name": "n", "type": {"type": "record", "name": "N2", "fields": [{"name": "n", "type": {"type": "record", "name": "N3", "fields": [
        {"name": "n", "type": {"type": "record", "name": "N4", "fields": [{"name": "n", "type": {"type": "record", "name": "N5", "fields": [{"name": "n", "type": {"type": "record", "name": "N6", "fields": [
            {"name": "n", "type": {"type": "record", "name": "N7", "fields": [{"name": "xs", "type": {"type": "array", "items": "int"}}, {"name": "m", "type": {"type": "map", "values": "string"}}]}}]}}]}}]}}]}}]}}]},
    {"type": "record", "name": "Outer", "namespace": "u", "fields": [
        {"name": "pick", "type": [
            {"type": "record", "name": "First", "fields": [{"name": "x", "type": "int"}]},
            {"type": "record", "name": "Second", "fields": [{"name": "e", "type": {"type": "enum", "name": "E", "symbols": ["A", "B"]}}, {"name": "e2", "type": "E"}]}]}]},
]


def schema_list(tier):
    out = list(EXTRA)
    for s in family.schemas("quick"):
        n = named_types(s)
        top_named = isinstance(s, dict) and s.get("type") in ("record", "enum", "fixed")
        hoistable = n[1:] if top_named else n
        # the parse marker and the embedded name table are carried by record schemas only,
        # so only a top-level record can refer to separately parsed types
        if 1 <= len(hoistable) and len(n) <= 5 and top_named and s.get("type") == "record":
            out.append(s)
    return out


def units(tier):
    return ["handmade"] + list(range(len(schema_list(tier))))


def outcome(fn):
    try:
        return ("ok", fn())
    except Exception as e:
        return ("exc", type(e).__name__)


def ops(fa, schema, d, raw_for_reader=None):
    """All public operations under one schema form -> dict name -> outcome."""
    out = {}

    def sl():
        fo = io.BytesIO()
        fa.schemaless_writer(fo, schema, d)
        b = fo.getvalue()
        fo.seek(0)
        return (b, fa.schemaless_reader(fo, schema))

    def cont():
        fo = io.BytesIO()
        fa.writer(fo, schema, [d, d], sync_marker=b"P" * 16)
        b = fo.getvalue()
        return list(fa.reader(io.BytesIO(b)))  # from the bytes alone

    def js():
        fo = io.StringIO()
        fa.json_writer(fo, schema, [d])
        t = fo.getvalue()
        return (json.loads(t) if t else None, list(fa.json_reader(io.StringIO(t), schema)))

    def resolve():
        # the form under test used as READER schema over data written with the raw form
        if raw_for_reader is None:
            return None
        fo = io.BytesIO()
        fa.schemaless_writer(fo, copy.deepcopy(raw_for_reader), d)
        fo.seek(0)
        a = fa.schemaless_reader(fo, copy.deepcopy(raw_for_reader), schema)
        fo = io.BytesIO()
        fa.writer(fo, copy.deepcopy(raw_for_reader), [d], sync_marker=b"P" * 16)
        fo.seek(0)
        return (a, list(fa.reader(fo, reader_schema=schema)))

    def resolve_added():
        # data written under the raw schema WITHOUT its defaulted top-level fields, read with the form under test:
        # the reader-only fields must be filled from the form's defaults (their types may be by-name references)
        if raw_for_reader is None or not (isinstance(raw_for_reader, dict) and raw_for_reader.get("type") == "record"):
            return None
        keep = [f for f in raw_for_reader["fields"] if "default" not in f]
        if len(keep) == len(raw_for_reader["fields"]) or not isinstance(d, dict):
            return None
        try:
            wr = dict(copy.deepcopy(raw_for_reader), fields=copy.deepcopy(keep))
            fa.parse_schema(copy.deepcopy(wr))
        except Exception:
            return None  # the reduced schema loses a definition that a kept field refers to
        d2 = {k: v for k, v in d.items() if k in {f["name"] for f in keep}}
        fo = io.BytesIO()
        fa.schemaless_writer(fo, copy.deepcopy(wr), d2)
        fo.seek(0)
        return fa.schemaless_reader(fo, copy.deepcopy(wr), schema)

    def sl_options():
        # reader options reach every position, whether its type is defined there or referred to by name
        fo = io.BytesIO()
        fa.schemaless_writer(fo, schema, d)
        b = fo.getvalue()
        res = []
        for o in ({"return_record_name": True}, {"return_named_type": True}, {"return_record_name": True, "return_record_name_override": True},
                  {"return_named_type": True, "return_named_type_override": True}):
            res.append(fa.schemaless_reader(io.BytesIO(b), schema, **o))
        fo = io.BytesIO()
        fa.writer(fo, schema, [d], sync_marker=b"P" * 16)
        res.append(list(fa.reader(io.BytesIO(fo.getvalue()), return_record_name=True)))
        return res

    def skip_first_with_evolved_reader():
        # data written under the form under test, read with a LATER version of the schema: the first top-level field is
        # gone (its value is skipped using the WRITER's definitions) and every other record has gained a defaulted field
        if raw_for_reader is None or '"error"' in json.dumps(raw_for_reader):
            return None
        node, defs = names.resolve(copy.deepcopy(raw_for_reader))
        top = names.deref(node, defs)
        if top["k"] != "record" or len(top["fields"]) < 2:
            return None

        def hook(full, d):
            if full != top["name"]:
                d["fields"].append({"name": "zz_added", "type": "int", "default": 7})

        reader = names.to_schema(node, defs, field_filter=lambda full, i, f: not (full == top["name"] and i == 0), record_hook=hook)
        try:
            names.resolve(copy.deepcopy(reader))
        except Exception:
            return None
        fo = io.BytesIO()
        fa.schemaless_writer(fo, schema, d)
        res_raw_reader = fa.schemaless_reader(io.BytesIO(fo.getvalue()), schema, copy.deepcopy(reader))
        # the evolved reader handed over piecewise as well (its own table): the top records may then look alike while the
        # evolution sits inside a separately parsed piece
        try:
            rnamed = named_types(reader)
            rq, _, _ = build_piecewise(fa, reader, frozenset(rnamed[1:]))
        except Exception:
            return (res_raw_reader, res_raw_reader)  # this reader cannot be cut into pieces that parse on their own
        return (res_raw_reader, fa.schemaless_reader(io.BytesIO(fo.getvalue()), schema, rq))

    def keep_all_with_evolved_reader():
        # the same evolution without dropping anything at the top: every nested record gains a defaulted field
        if raw_for_reader is None or '"error"' in json.dumps(raw_for_reader):
            return None
        node, defs = names.resolve(copy.deepcopy(raw_for_reader))
        top = names.deref(node, defs)
        if top["k"] != "record":
            return None

        def hook(full, d_):
            if full != top["name"]:
                d_["fields"].append({"name": "zz_added", "type": "string", "default": "NL"})

        reader = names.to_schema(node, defs, record_hook=hook)
        try:
            names.resolve(copy.deepcopy(reader))
            rnamed = named_types(reader)
            if len(rnamed) < 2:
                return None
            rq, _, _ = build_piecewise(fa, reader, frozenset(rnamed[1:]))
        except Exception:
            return None
        fo = io.BytesIO()
        fa.schemaless_writer(fo, schema, d)
        return (fa.schemaless_reader(io.BytesIO(fo.getvalue()), schema, copy.deepcopy(reader)), fa.schemaless_reader(io.BytesIO(fo.getvalue()), schema, rq))

    def strict_then_container():
        # the SAME schema object first used for strict writes, then for a container file and a JSON document
        a = io.BytesIO()
        try:
            fa.schemaless_writer(a, schema, d, strict=True)
            strict_part = a.getvalue()
        except Exception as e:
            strict_part = type(e).__name__
        try:
            fa.schemaless_writer(io.BytesIO(), schema, d, strict_allow_default=True)
        except Exception:
            pass
        fo = io.BytesIO()
        fa.writer(fo, schema, [d], sync_marker=b"P" * 16)
        so = io.StringIO()
        fa.json_writer(so, schema, [d])
        return (strict_part, list(fa.reader(io.BytesIO(fo.getvalue()))), so.getvalue())

    out["strict-then-container"] = outcome(strict_then_container)
    out["first-field-skipped-under-evolved-reader"] = outcome(skip_first_with_evolved_reader)
    out["nested-records-evolved-reader-raw-and-piecewise"] = outcome(keep_all_with_evolved_reader)
    out["read-with-options"] = outcome(sl_options)
    out["as-reader-schema"] = outcome(resolve)
    out["as-reader-with-added-fields"] = outcome(resolve_added)
    out["schemaless"] = outcome(sl)
    out["container"] = outcome(cont)
    out["json"] = outcome(js)
    out["validate"] = outcome(lambda: fa.validate(d, schema, raise_errors=False))
    return out


def schema_ops(fa, schema):
    import fastavro.utils as u

    def gen():
        saved = u.random
        u.random = random.Random(777)
        try:
            return u.generate_one(schema)
        finally:
            u.random = saved

    def json_absent():
        # JSON documents that leave out every defaulted field, and each single one
        n = schema if isinstance(schema, dict) else None
        if not (isinstance(n, dict) and n.get("type") == "record"):
            return None
        req = {}
        for f in n["fields"]:
            if "default" not in f:
                if f["type"] in ("int", "long"):
                    req[f["name"]] = 1
                elif f["type"] == "string":
                    req[f["name"]] = "s"
                else:
                    return None
        return list(fa.json_reader(io.StringIO(json.dumps(req) + "\n" + json.dumps(req)), schema))

    return {"canonical": outcome(lambda: fa.schema.to_parsing_canonical_form(schema)), "generate": outcome(gen), "json-absent-keys": outcome(json_absent)}


def _has_hint(d):
    if isinstance(d, tuple) and len(d) == 2 and isinstance(d[0], str):
        return True
    if isinstance(d, dict):
        return "-type" in d or any(_has_hint(v) for v in d.values())
    if isinstance(d, (list, tuple)):
        return any(_has_hint(v) for v in d)
    return False


def _shorten_hint(d):
    """The datum with its first dotted hint name cut to the last segment (None when there is none)."""
    done = [False]

    def walk(x):
        if done[0]:
            return x
        if isinstance(x, tuple) and len(x) == 2 and isinstance(x[0], str):
            if "." in x[0]:
                done[0] = True
                return (x[0].rsplit(".", 1)[1], x[1])
            return (x[0], walk(x[1]))
        if isinstance(x, dict):
            out = {}
            for k, v in x.items():
                if k == "-type" and isinstance(v, str) and "." in v and not done[0]:
                    done[0] = True
                    out[k] = v.rsplit(".", 1)[1]
                else:
                    out[k] = walk(v)
            return out
        if isinstance(x, list):
            return [walk(v) for v in x]
        return x

    out = walk(d)
    return out if done[0] else None


# piecewise configurations that no hoisting of a raw schema produces: a piece keeps the inline definition of a type that
# the main schema (parsed later against the same table) refers to BEFORE it refers to the piece
HANDMADE_PIECEWISE = [
    ("definition-inside-later-piece",
     {"type": "record", "name": "Parent", "namespace": "n", "fields": [
         {"name": "a", "type": {"type": "fixed", "name": "G", "size": 2}}, {"name": "b", "type": {"type": "record", "name": "Child", "fields": [{"name": "g", "type": "G"}, {"name": "gs", "type": {"type": "array", "items": "n.G"}}]}},
         {"name": "c", "type": ["null", "Child"], "default": None}]},
     [{"type": "record", "name": "Child", "namespace": "n", "fields": [{"name": "g", "type": {"type": "fixed", "name": "G", "size": 2}}, {"name": "gs", "type": {"type": "array", "items": "n.G"}}]}],
     {"type": "record", "name": "Parent", "namespace": "n", "fields": [{"name": "a", "type": "n.G"}, {"name": "b", "type": "n.Child"}, {"name": "c", "type": ["null", "n.Child"], "default": None}]},
     [{"a": b"xy", "b": {"g": b"zz", "gs": [b"12"]}, "c": None}, {"a": b"\x00\xff", "b": {"g": b"ab", "gs": []}, "c": {"g": b"cd", "gs": [b"ef", b"gh"]}}]),
    ("same-short-name-in-null-namespace-and-in-shop",
     {"type": "record", "name": "Item", "namespace": "shop", "fields": [
         {"name": "k", "type": {"type": "enum", "name": "Kind", "symbols": ["A", "B"]}}, {"name": "k2", "type": "Kind"}, {"name": "k3", "type": ["null", "shop.Kind"]},
         {"name": "ks", "type": {"type": "array", "items": "Kind"}}]},
     # the table also holds an unrelated null-namespace type with the same short name, parsed first
     [{"type": "enum", "name": "Kind", "symbols": ["GLOBAL"]}, {"type": "enum", "name": "Kind", "namespace": "shop", "symbols": ["A", "B"]}],
     {"type": "record", "name": "Item", "namespace": "shop", "fields": [{"name": "k", "type": "shop.Kind"}, {"name": "k2", "type": "Kind"}, {"name": "k3", "type": ["null", "shop.Kind"]},
                                                                       {"name": "ks", "type": {"type": "array", "items": "Kind"}}]},
     [{"k": "B", "k2": "A", "k3": "B", "ks": ["A", "B"]}, {"k": "A", "k2": "B", "k3": None, "ks": []}]),
    ("two-pieces-sharing-an-inner-enum",
     {"type": "record", "name": "Top", "namespace": "m", "fields": [
         {"name": "k", "type": {"type": "enum", "name": "K", "symbols": ["A", "B"]}},
         {"name": "x", "type": {"type": "record", "name": "X", "fields": [{"name": "k", "type": "K"}]}}, {"name": "y", "type": {"type": "record", "name": "Y", "fields": [{"name": "k", "type": "m.K"}, {"name": "x", "type": "X"}]}}]},
     [{"type": "record", "name": "X", "namespace": "m", "fields": [{"name": "k", "type": {"type": "enum", "name": "K", "symbols": ["A", "B"]}}]},
      {"type": "record", "name": "Y", "namespace": "m", "fields": [{"name": "k", "type": "m.K"}, {"name": "x", "type": "m.X"}]}],
     {"type": "record", "name": "Top", "namespace": "m", "fields": [{"name": "k", "type": "m.K"}, {"name": "x", "type": "m.X"}, {"name": "y", "type": "m.Y"}]},
     [{"k": "B", "x": {"k": "A"}, "y": {"k": "B", "x": {"k": "B"}}}]),
]


def run_handmade(fa, res):
    seen = 0
    for label, raw, pieces, main, data in HANDMADE_PIECEWISE:
        table = {}
        try:
            for p in pieces:
                fa.parse_schema(copy.deepcopy(p), table)
            pw = fa.parse_schema(copy.deepcopy(main), table)
        except Exception as e:
            res.add(Violation("c12.piecewise-parse", f"piecewise-parse-raised:{type(e).__name__}:handmade", f"{label}: {type(e).__name__}: {e}", {"schema": raw, "hoist": [label], "op": "parse", "handmade": label}))
            continue
        ref_s = schema_ops(fa, copy.deepcopy(raw))
        got_s = schema_ops(fa, pw)
        for op, val in got_s.items():
            res.evals += 1
            seen += 1
            if op != "generate" and not _same_outcome(val, ref_s[op]):
                res.add(Violation("c12.schema-op", f"{op}-differs:handmade-piecewise", f"{label}: {op} under the piecewise form = {short(val, 300)}, under the equivalent raw schema {short(ref_s[op], 300)}", {"schema": raw, "hoist": [label], "op": op, "handmade": label}))
        for d in data:
            ref_out = ops(fa, copy.deepcopy(raw), d, raw)
            got = ops(fa, pw, d, raw)
            for op, val in got.items():
                res.evals += 1
                seen += 1
                if not _same_outcome(val, ref_out[op]):
                    res.add(Violation("c12.data-op", f"{op}-differs:handmade-piecewise", f"{label}: {op} of {short(d, 120)} under the piecewise form = {short(val, 250)}, equivalent raw schema {short(ref_out[op], 250)}", {"schema": raw, "hoist": [label], "op": op, "handmade": label, "datum": d}))
    res.distinct = seen
    res.sample({"handmade_piecewise": [h[0] for h in HANDMADE_PIECEWISE]})
    return res


def run_unit(i, tier):
    import fastavro as fa
    import fastavro.schema  # noqa

    if i == "handmade":
        return run_handmade(fa, UnitResult())

    res = UnitResult()
    raw = schema_list(tier)[i]
    node, defs = names.resolve(raw)
    allnamed = named_types(raw)
    top_named = isinstance(raw, dict) and raw.get("type") in ("record", "enum", "fixed")
    hoistable = allnamed[1:] if top_named else allnamed
    data = [d for d, c in alphabet.data_for(node, defs, 1, hints=False, big=False)][:60]
    # hinted data: with the full branch name, and with only its last segment (whatever a form makes of the short spelling -
    # accepted or refused - every form must make the same of it)
    hinted = [d for d, c in alphabet.data_for(node, defs, 1, hints=True, big=False) if _has_hint(d)][:24]
    data += hinted + [x for x in (_shorten_hint(d) for d in hinted) if x is not None]
    if isinstance(raw, dict) and raw.get("name") == "Pick":
        data += [{"u": {"a": 1, "b": 2, "c": 3}}, {"u": {"c": 3}}, {"u": {"a": 1}}, {"u": {}, "us": [{"a": 1, "b": 2, "c": 3}, {"b": 1}, None]}]
    forms = [("raw", lambda: copy.deepcopy(raw), frozenset())]
    parsed = fa.parse_schema(copy.deepcopy(raw))
    forms.append(("parsed", lambda: parsed, frozenset()))
    # idempotence
    res.evals += 1
    again = fa.parse_schema(parsed)
    if isinstance(parsed, dict) and parsed.get("type") in ("record", "error"):
        if again is not parsed:
            res.add(Violation("c12.idempotent", "parse-of-parsed-not-identical", f"parse_schema(parsed) is a different object | {short(raw, 300)}", {"schema": raw, "hoist": [], "op": "parse"}))
    if not _schema_equal(again, parsed):
        res.add(Violation("c12.idempotent", "parse-of-parsed-differs", f"parse_schema(parsed) != parsed | {short(raw, 300)}", {"schema": raw, "hoist": [], "op": "parse"}))
    for r in range(1, len(hoistable) + 1):
        for sub in itertools.combinations(hoistable, r):
            hs = frozenset(sub)
            try:
                pieces, main = split(raw, hs)
                tbl = {}
                for p in pieces:
                    names.resolve(p, tbl)
                names.resolve(main, tbl)
            except names.RefSchemaError:
                res.stats["subsets_skipped_unresolvable"] += 1
                continue
            try:
                q, _, _ = build_piecewise(fa, raw, hs)
            except Exception as e:
                res.add(Violation("c12.piecewise-parse", f"piecewise-parse-raised:{type(e).__name__}", f"parsing the pieces {sorted(hs)} separately raised {type(e).__name__}: {e} | {short(raw, 300)}", {"schema": raw, "hoist": sorted(hs), "op": "parse"}))
                continue
            forms.append(("piecewise", (lambda q=q: q), hs))
            # the same pieces, each parsed on its own first and then registered, as parsed objects,
            # into a shared table that already holds something else
            try:
                pieces, main = split(raw, hs)
                table = {}
                fa.parse_schema({"type": "enum", "name": "zzz.Unrelated", "symbols": ["U"]}, table)
                ok = True
                for p in pieces:
                    try:
                        standalone = fa.parse_schema(copy.deepcopy(p))
                    except Exception:
                        ok = False  # the piece needs another piece: cannot be parsed alone
                        break
                    fa.parse_schema(standalone, table)
                if ok:
                    q2 = fa.parse_schema(main, table)
                    forms.append(("piecewise-registered", (lambda q2=q2: q2), hs))
            except Exception as e:
                res.add(Violation("c12.piecewise-parse", f"registered-parse-raised:{type(e).__name__}", f"registering separately parsed pieces {sorted(hs)} raised {type(e).__name__}: {e} | {short(raw, 300)}", {"schema": raw, "hoist": sorted(hs), "op": "parse"}))
    base_ops = None
    keys = set()
    ref_schema_ops = schema_ops(fa, copy.deepcopy(raw))
    for fname, mk, hs in forms[1:]:
        got = schema_ops(fa, mk())
        for op, val in got.items():
            res.evals += 1
            keys.add((fname, hs, op))
            if not _same_outcome(val, ref_schema_ops[op]):
                res.add(Violation("c12.schema-op", f"{op}-differs:{fname}", f"{op} under the {fname} form (hoisted {sorted(hs)}) = {short(val, 300)}, under the raw form {short(ref_schema_ops[op], 300)} | {short(raw, 300)}",
                                  {"schema": raw, "hoist": sorted(hs), "op": op, "form": fname}))
    for d in data:
        ref_out = ops(fa, copy.deepcopy(raw), d, raw)
        for op2 in ("first-field-skipped-under-evolved-reader", "nested-records-evolved-reader-raw-and-piecewise"):
            o = ref_out.get(op2)
            if o and o[0] == "ok" and isinstance(o[1], tuple) and len(o[1]) == 2 and not same(o[1][0], o[1][1]):
                res.add(Violation("c12.data-op", f"{op2}:reader-forms-differ", f"{op2} of {short(d, 120)}: with the reader schema raw {short(o[1][0], 200)}, with the same reader schema piecewise {short(o[1][1], 200)} | {short(raw, 250)}",
                                  {"schema": raw, "hoist": [], "op": op2, "form": "raw", "datum": d}))
        for fname, mk, hs in forms[1:]:
            note_case({"schema": raw, "hoist": sorted(hs), "datum": d})
            got = ops(fa, mk(), d, raw)
            for op, val in got.items():
                res.evals += 1
                keys.add((fname, hs, op, key(d)))
                if not _same_outcome(val, ref_out[op]):
                    res.add(Violation("c12.data-op", f"{op}-differs:{fname}", f"{op} of {short(d, 120)} under the {fname} form (hoisted {sorted(hs)}) = {short(val, 250)}, raw form {short(ref_out[op], 250)} | {short(raw, 250)}",
                                      {"schema": raw, "hoist": sorted(hs), "op": op, "form": fname, "datum": d}))
    # a top-level union whose branches were each parsed on their own
    other = {"type": "record", "name": "zz.Other", "fields": [{"name": "o", "type": {"type": "fixed", "name": "zz.Fo", "size": 1}}, {"name": "o2", "type": "zz.Fo"}]}
    uraw = [copy.deepcopy(other), copy.deepcopy(raw)]
    uparsed = [fa.parse_schema(copy.deepcopy(other)), parsed]
    try:
        names.resolve(uraw)
        for d in data[:25] + [{"o": b"x", "o2": b"y"}]:
            a = ops(fa, copy.deepcopy(uraw), d)
            b = ops(fa, uparsed, d)
            for op in a:
                res.evals += 1
                keys.add(("union-of-parsed", op, key(d)))
                if not _same_outcome(a[op], b[op]):
                    res.add(Violation("c12.data-op", f"{op}-differs:union-of-parsed", f"{op} of {short(d, 120)} under a union of separately parsed records = {short(b[op], 250)}, raw union {short(a[op], 250)} | {short(raw, 250)}",
                                      {"schema": raw, "hoist": ["<union-of-parsed>"], "op": op, "form": "union-of-parsed", "datum": d}))
    except names.RefSchemaError:
        pass
    # a top-level union [separately parsed pieces..., record referring to them]: cross references between branches
    for r in range(1, min(2, len(hoistable)) + 1):
        for sub in itertools.combinations(hoistable, r):
            hs = frozenset(sub)
            try:
                pieces, main = split(raw, hs)
                uraw2 = [copy.deepcopy(p) for p in pieces] + [copy.deepcopy(main)]
                unode, udefs = names.resolve(uraw2)
            except (names.RefSchemaError, KeyError):
                continue
            try:
                table = {}
                uparsed2 = [fa.parse_schema(copy.deepcopy(p), table) for p in pieces] + [fa.parse_schema(copy.deepcopy(main), table)]
            except Exception as e:
                res.add(Violation("c12.piecewise-parse", f"union-pieces-parse-raised:{type(e).__name__}", f"{e} | {short(raw, 300)}", {"schema": raw, "hoist": sorted(hs), "op": "parse"}))
                continue
            if not all(isinstance(x, dict) and x.get("type") in ("record", "error") for x in uparsed2):
                continue  # only parsed records carry the table
            for d in data[:12]:
                a = ops(fa, copy.deepcopy(uraw2), d)
                b = ops(fa, uparsed2, d)
                for op in a:
                    res.evals += 1
                    keys.add(("union-of-pieces", hs, op, key(d)))
                    if not _same_outcome(a[op], b[op]):
                        res.add(Violation("c12.data-op", f"{op}-differs:union-of-pieces", f"{op} of {short(d, 120)} under the union [pieces {sorted(hs)}, main] of separately parsed records = {short(b[op], 250)}, raw union {short(a[op], 250)} | {short(raw, 250)}",
                                          {"schema": raw, "hoist": sorted(hs), "op": op, "form": "union-of-pieces", "datum": d}))
    res.distinct = len(keys)
    res.stats["piecewise_forms"] += len(forms) - 2
    res.sample({"schema": raw, "named": allnamed, "piecewise_forms": len(forms) - 2, "data": len(data)})
    return res


def _same_outcome(a, b):
    if a[0] != b[0]:
        return False
    if a[0] == "exc":
        return a[1] == b[1]
    return same(a[1], b[1])


def _schema_equal(a, b):
    if isinstance(a, dict) and isinstance(b, dict):
        ka = [k for k in a if k != "__named_schemas"]
        kb = [k for k in b if k != "__named_schemas"]
        return set(ka) == set(kb) and all(_schema_equal(a[k], b[k]) for k in ka)
    if isinstance(a, list) and isinstance(b, list):
        return len(a) == len(b) and all(_schema_equal(x, y) for x, y in zip(a, b))
    return a == b


def replay(case):
    import fastavro as fa
    import fastavro.schema  # noqa

    res = UnitResult()
    if case.get("handmade"):
        r = run_handmade(fa, res)
        keep = [v for v in r.violations if v["case"].get("handmade") == case["handmade"] and v["case"].get("op") == case.get("op")]
        return keep or r.violations
    raw = case["schema"]
    i = [k for k, s in enumerate(schema_list("quick")) if s == raw]
    if not i:
        return []
    r = run_unit(i[0], "quick")
    keep = [v for v in r.violations if v["case"].get("hoist") == case.get("hoist") and v["case"].get("op") == case.get("op")]
    return keep or r.violations
