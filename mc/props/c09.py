"""C09 — union branch choice is deterministic, honours hints and is closed under
read/write with named-type reporting."""
import copy
import datetime
import io
import itertools

from ..harness import UnitResult, Violation, short, note_case
from .. import family, alphabet
from ..values import same, key
from ..ref import names, conform, binary

LEVEL = "exploration"
RULE = (
    "every ordered union of 2 (thorough: 3) branches over {null, boolean, int, long, float, double, string, bytes, enum E, "
    "enum E2 (overlapping symbol), fixed F, array<int>, map<int>, records A{x}, A2{x} (same shape), B{x,y?}, C{y?,z=0}, int-date, dict-form "
    "double with a custom attribute} legal under the specification, in five contexts (top level, record field, array items, "
    "map values, inside a record that is itself a union branch - with and without namespace -, inside a record used a second "
    "time by reference) and with the named branches spelled inline or by name; x "
    "every datum of D_1 of each branch plus the ambiguous ones (every subset of the records' field names, 5, 1.5, b'..', 'A', "
    "'B') x hints (tuple for every branch name, full name, an unknown name; '-type' for each record and an unknown one) x "
    "disable_tuple_notation x the reader options return_record_name / return_named_type and their overrides. Oracle: the "
    "index in the bytes is a branch the reference conformance accepts, equal for raw/parsed schema and on repetition; a hint "
    "selects exactly the named branch or raises; without hint the C09 rule where the statement defines it; reading with "
    "named-type reporting and writing the result back reproduces the bytes. distinct_nontrivial = distinct (schema, datum, "
    "option) triples."
    ' Every union with named branches is explored a second time as its twin (same names, redefined enum symbols / fixed size / record fields) and then once more in its original version, in the same process.'
)
ASSUMPTIONS = [
    "where the statement is silent (a datum conforming to both a record and a non-record branch) only conformance and determinism are asserted",
    "reference conformance/branch rule in mc/ref/conform.py",
    "pure-Python fastavro only (Cython absent)",
]
UNIT_TIMEOUT_S = 1500

A = {"type": "record", "name": "A", "fields": [{"name": "x", "type": "int"}]}
B = {"type": "record", "name": "B", "fields": [{"name": "x", "type": "int"}, {"name": "y", "type": "string", "default": "dy"}]}
C = {"type": "record", "name": "C", "fields": [{"name": "y", "type": "string", "default": "dy"}, {"name": "z", "type": "int", "default": 0}]}
ZA = {"type": "record", "name": "ZA", "fields": [{"name": "x", "type": "int"}]}  # its name ends with "A": a hint must match names exactly
LB = {"type": "record", "name": "Labelled", "fields": [{"name": "label", "type": "string", "default": "none"}]}
LN = {"type": "record", "name": "MaybeLabelled", "fields": [{"name": "label", "type": ["null", "string"], "default": None}]}
A2 = {"type": "record", "name": "A2", "fields": [{"name": "x", "type": "int"}]}  # same shape as A: only a hint tells them apart
NARROW = {"type": "record", "name": "Narrow", "fields": [{"name": "vals", "type": {"type": "array", "items": "int"}}]}
WIDE = {"type": "record", "name": "Wide", "fields": [{"name": "vals", "type": {"type": "array", "items": "long"}}]}
# a field alias is a READER-side renaming aid; it is not one of the names a datum shares with a branch
COMMENT = {"type": "record", "name": "Comment", "fields": [{"name": "id", "type": "int"}, {"name": "note", "type": "string", "default": ""}]}
ARTICLE = {"type": "record", "name": "Article", "fields": [{"name": "id", "type": "int"}, {"name": "title", "type": "string", "default": "", "aliases": ["name", "note2"]}]}

POOL = [
    "null", "boolean", "int", "long", "float", "double", "string", "bytes", family.E(), family.E2(), family.F(), {"type": "array", "items": "int"},
    {"type": "map", "values": "int"}, A, B, C, {"type": "int", "logicalType": "date"}, {"type": "double", "unit": "metres"}, A2, ZA, LB, LN, NARROW, WIDE, COMMENT, ARTICLE,
    {"type": "fixed", "name": "Money", "size": 8, "logicalType": "decimal", "precision": 12, "scale": 2}, {"type": "bytes", "logicalType": "decimal", "precision": 12, "scale": 2},
]


def branch_kind(b):
    if isinstance(b, dict):
        t = b["type"]
        return ("named", b["name"]) if t in ("record", "enum", "fixed") else t
    return b


def legal(bs):
    ks = [branch_kind(b) for b in bs]
    return len(set(map(repr, ks))) == len(ks)


def unions(tier):
    out = []
    for a, b in itertools.permutations(range(len(POOL)), 2):
        bs = [POOL[a], POOL[b]]
        if legal(bs):
            out.append(copy.deepcopy(bs))
    if tier == "thorough":
        for tr in itertools.permutations(range(len(POOL)), 3):
            bs = [POOL[i] for i in tr]
            if legal(bs):
                out.append(copy.deepcopy(bs))
    else:
        # quick: the triples made of records / float-double / named mixes only
        core = [POOL[i] for i in (0, 5, 13, 14, 15, 18, 19, 20, 21)]
        for tr in itertools.permutations(range(len(core)), 3):
            bs = [core[i] for i in tr]
            if legal(bs) and sum(1 for b in bs if isinstance(b, dict) and b.get("type") == "record") >= 2:
                out.append(copy.deepcopy(bs))
        out.append(copy.deepcopy(["float", "string", "double"]))
    # 140 branches: primitives, then named types (the index of most branches does not fit one varint byte)
    wide = ["null", "boolean", "int", "string", "bytes", "double"] + [{"type": "fixed", "name": "Wf%d" % i, "size": 1 + i % 3} for i in range(64)] + \
           [{"type": "record", "name": "Wr%d" % i, "fields": [{"name": "w%d" % i, "type": "int"}]} for i in range(60)] + [{"type": "enum", "name": "We%d" % i, "symbols": ["A", "B%d" % i]} for i in range(10)]
    out.append(wide)
    out.append(copy.deepcopy(["null", "float", {"type": "double", "unit": "m"}]))
    return out


def contexts(u):
    """The union at top level and nested; named branches inline or by reference."""
    out = [("top", copy.deepcopy(u))]
    out.append(("field", {"type": "record", "name": "W", "fields": [{"name": "pre", "type": "int"}, {"name": "u", "type": copy.deepcopy(u)}]}))
    out.append(("array", {"type": "array", "items": copy.deepcopy(u)}))
    out.append(("map", {"type": "map", "values": copy.deepcopy(u)}))
    out.append(("in-branch", ["null", {"type": "record", "name": "Holder", "namespace": "deep", "fields": [{"name": "u", "type": copy.deepcopy(u)}]}]))
    # the same nesting without any namespace ('-type' hints must still be matched by the record's own name)
    out.append(("in-branch", ["null", {"type": "record", "name": "Holder2", "fields": [{"name": "u", "type": copy.deepcopy(u)}]}]))
    # two holder records in an outer union; only the second one's inner union has the hinted names
    out.append(("in-branch", ["null",
                              {"type": "record", "name": "HolderP", "fields": [{"name": "u", "type": ["null", {"type": "record", "name": "P", "fields": [{"name": "x", "type": "int"}]},
                                                                                                    {"type": "enum", "name": "PE", "symbols": ["A", "B", "C", "Z"]}, "string", "long", "double", "bytes"]}]},
                              {"type": "record", "name": "HolderU", "fields": [{"name": "u", "type": copy.deepcopy(u)}]}]))
    # a record holding the union, used a second time by reference
    out.append(("second-use", {"type": "record", "name": "W2", "fields": [
        {"name": "first", "type": {"type": "record", "name": "Holder3", "fields": [{"name": "u", "type": copy.deepcopy(u)}]}},
        {"name": "second", "type": "Holder3"}, {"name": "others", "type": {"type": "array", "items": "Holder3"}}]}))
    named = [b for b in u if isinstance(b, dict) and b.get("type") in ("record", "enum", "fixed")]
    if named:
        fields = [{"name": "d%d" % i, "type": copy.deepcopy(b)} for i, b in enumerate(named)]
        byname = [b["name"] if (isinstance(b, dict) and b.get("type") in ("record", "enum", "fixed")) else copy.deepcopy(b) for b in u]
        fields.append({"name": "u", "type": byname})
        out.append(("by-name", {"type": "record", "name": "W", "namespace": "nsw", "fields": fields}))
        if len(named) >= 2:
            # the first named branch inline, the later ones by reference
            fields2 = [{"name": "d%d" % i, "type": copy.deepcopy(b)} for i, b in enumerate(named[1:])]
            first = True
            mixed = []
            for b in u:
                if isinstance(b, dict) and b.get("type") in ("record", "enum", "fixed"):
                    mixed.append(copy.deepcopy(b) if first else b["name"])
                    first = False
                else:
                    mixed.append(copy.deepcopy(b))
            fields2.append({"name": "u", "type": mixed})
            out.append(("by-name", {"type": "record", "name": "W", "namespace": "nsw", "fields": fields2}))
    return out


def ambiguous(u):
    recs = [b for b in u if isinstance(b, dict) and b.get("type") == "record"]
    out = []
    if recs:
        fnames = []
        ftype = {}
        for r in recs:
            for f in r["fields"]:
                if f["name"] not in fnames:
                    fnames.append(f["name"])
                    ftype[f["name"]] = f["type"]
        def bv(t):
            if isinstance(t, dict) and t.get("type") == "array":
                return [1]
            return {"int": 1, "string": "s"}.get(t if isinstance(t, str) else None, "s" if isinstance(t, list) else 1)

        for n in range(len(fnames) + 1):
            for sub in itertools.combinations(fnames, n):
                out.append({k: bv(ftype[k]) for k in sub})
        for r in recs:
            d = {f["name"]: bv(f["type"]) for f in r["fields"]}
            out.append(dict(d, **{"-type": r["name"]}))
        out.append({"x": 1, "-type": "Unknown"})
    out += [{"label": None}, {"label": "x"}, {"label": None, "-type": "MaybeLabelled"}, ("MaybeLabelled", {"label": None}), ("Labelled", {"label": "y"})]
    import array as _array

    out += [{"vals": [1, 2 ** 40]}, {"vals": _array.array("q", [1, 2 ** 40])}, {"vals": [1] * 100 + [2 ** 40]}, {"vals": _array.array("q", [1, 2])}, {"vals": [1] * 300},
            {"id": 7, "name": "x"}, {"id": 7, "note2": "x", "name": "y"}, {"id": 7, "title": "t"}, {"id": 7}]
    out += [Hint("A", {"x": 1}), Hint("E", "B"), Hint("int", 7), Hint("Nope", 1), Hint("map", {"k": 1})]
    # map data whose keys merely LOOK like the record hint
    out += [{"-type": 1, "k": 2}, {"-type": 5}, ("map", {"-type": 3})]
    out += [("A", {"x": 1}), ("ZA", {"x": 1}), ("Nope", {"x": 1}), ("E", "B"), ("E2", "B"), ("Nope", "B")]
    out += [5, 1.5, 1, b"ab", "A", "B", "Z", None, True, [1], {"k": 1}, {}, datetime.date(2020, 2, 29), ("Unknown", 1), ("int", 7), ("double", 2.5), ("float", 2.5)]
    return out


def embed(ctx, d):
    """Datum for the context schema holding union datum d."""
    if ctx == "top":
        return d
    if ctx == "field":
        return {"pre": 3, "u": d}
    if ctx == "array":
        return [d, d]
    if ctx == "map":
        return {"k": d}
    if ctx == "in-branch":
        return {"u": d}
    if ctx == "second-use":
        return {"first": {"u": d}, "second": {"u": d}, "others": [{"u": d}]}
    raise AssertionError(ctx)


READER_OPTS = [
    {}, {"return_record_name": True}, {"return_record_name": True, "return_record_name_override": True},
    {"return_named_type": True}, {"return_named_type": True, "return_named_type_override": True},
]


def write(fa, schema, d, disable):
    fo = io.BytesIO()
    fa.schemaless_writer(fo, schema, d, disable_tuple_notation=disable)
    return fo.getvalue()


_CR_COUNT = {}
Hint = __import__("collections").namedtuple("Hint", ["branch", "value"])  # a tuple subclass is a tuple


def check(fa, res, raw, parsed, node, defs, d, disable, seen):
    kk = (key(d), disable)
    if kk in seen:
        return
    seen.add(kk)
    tuples = not disable
    info = {"schema": raw, "datum": d, "disable_tuple_notation": disable}
    note_case(info)
    res.evals += 1
    conf = conform.conforms(node, defs, d, False, tuples)
    try:
        b1 = write(fa, copy.deepcopy(raw), d, disable)
        err = None
    except Exception as e:
        b1, err = None, e
    if not conf:
        # only the hint clause is claimed for non-conforming data: a hint naming no branch must be an error
        if b1 is not None and _names_no_branch(node, defs, d, tuples):
            res.add(Violation("c09.hint", "unknown-hint-accepted", f"hint names no branch but the datum was written as {b1.hex()} | {short(info, 400)}", info))
        return
    if err is not None:
        res.add(Violation("c09.write", f"conforming-rejected:{type(err).__name__}", f"writer raised {type(err).__name__}: {err} | {short(info, 400)}", info))
        return
    try:
        b2 = write(fa, parsed, d, disable)
        b3 = write(fa, copy.deepcopy(raw), d, disable)
    except Exception as e:
        res.add(Violation("c09.determinism", f"second-write-raised:{type(e).__name__}", f"{e} | {short(info, 400)}", info))
        return
    if not (b1 == b2 == b3):
        res.add(Violation("c09.determinism", "bytes-vary", f"raw {b1.hex()} parsed {b2.hex()} repeated {b3.hex()} | {short(info, 400)}", info))
        return
    try:
        rv, pos, idx = binary.decode(node, defs, b1)
    except binary.DecodeError as e:
        res.add(Violation("c09.bytes", "undecodable", f"{b1.hex()}: {e} | {short(info, 400)}", info))
        return
    for kind, path, what in conform.check_choices(node, defs, d, conform.Indices(idx), tuples):
        res.add(Violation("c09.choice", kind, f"{kind} at {path}: written/expected {what}; bytes {b1.hex()} | {short(info, 400)}", info))
    # closure under read-with-names / write.  The statement claims it for values
    # read back WITH (name, value) pairs for named branches; a hint that selected a
    # branch the reader option does not report is outside the claim.
    hk = hint_kinds(node, defs, d, tuples)
    try:
        unreported_logical = took_unnamed_logical_branch(node, defs, rv, conform.Indices(idx))
    except Exception:
        unreported_logical = False
    for opts in READER_OPTS:
        if "nonnamed" in hk or unreported_logical:
            # the value went to a branch that is never reported as a (name, value) pair and whose logical conversion
            # changes the Python type on the way back: nothing is claimed about writing that value again
            continue
        if hk:
            if opts.get("return_named_type"):
                if opts.get("return_named_type_override") and "single-named-union" in hk:
                    continue
            elif opts.get("return_record_name"):
                if "enumfixed" in hk or (opts.get("return_record_name_override") and "single-record-union" in hk):
                    continue
            else:
                continue
        res.evals += 1
        try:
            back = fa.schemaless_reader(io.BytesIO(b1), parsed, **opts)
        except Exception as e:
            res.add(Violation("c09.closure", f"read-raised:{type(e).__name__}", f"reading with {opts} raised {type(e).__name__}: {e} | {short(info, 400)}", dict(info, reader_opts=opts)))
            continue
        # the same options given to the container readers report the same value
        cr_key = (id(seen), repr(opts))
        if not hk and _CR_COUNT.get(cr_key, 0) < 6:  # a handful of data per schema and option set: the container path adds the options, not the data
            _CR_COUNT[cr_key] = _CR_COUNT.get(cr_key, 0) + 1
            try:
                cfo = io.BytesIO()
                fa.writer(cfo, parsed, [copy.deepcopy(d)], sync_marker=b"9" * 16, disable_tuple_notation=disable)
                via_reader = list(fa.reader(io.BytesIO(cfo.getvalue()), **opts))
                via_blocks = [x for blk in fa.block_reader(io.BytesIO(cfo.getvalue()), **opts) for x in blk]
            except Exception as e:
                via_reader = via_blocks = f"{type(e).__name__}: {e}"
            if not (isinstance(via_reader, list) and len(via_reader) == 1 and same(via_reader[0], back) and isinstance(via_blocks, list) and len(via_blocks) == 1 and same(via_blocks[0], back)):
                res.add(Violation("c09.closure", "container-readers-report-differently", f"options {opts}: schemaless_reader gives {short(back, 150)}, reader {short(via_reader, 150)}, block_reader {short(via_blocks, 150)} | {short(info, 300)}", dict(info, reader_opts=opts)))
                continue
        try:
            again = write(fa, parsed, back, False)
        except Exception as e:
            res.add(Violation("c09.closure", f"rewrite-raised:{type(e).__name__}", f"value {short(back, 200)} read with {opts} cannot be written back: {type(e).__name__}: {e} | {short(info, 300)}", dict(info, reader_opts=opts)))
            continue
        if again != b1 and (opts.get("return_named_type") or opts.get("return_record_name")):
            res.add(Violation("c09.closure", "rewrite-differs", f"read with {opts} -> {short(back, 200)} -> written back {again.hex()} != {b1.hex()} | {short(info, 300)}", dict(info, reader_opts=opts)))


def took_unnamed_logical_branch(node, defs, v, indices):
    """Did any union in this (decoded, underlying) value take a branch that is not a named type and carries a logical type?"""
    n = names.deref(node, defs)
    k = n["k"]
    if k == "union":
        b = n["branches"][indices.next()]
        bn = names.deref(b, defs)
        if bn["k"] not in ("record", "enum", "fixed") and "logical" in bn:
            return True
        return took_unnamed_logical_branch(b, defs, v, indices)
    if k == "record":
        hit = False
        for f in n["fields"]:
            hit = took_unnamed_logical_branch(f["type"], defs, v[f["name"]], indices) or hit
        return hit
    if k == "array":
        hit = False
        for x in v:
            hit = took_unnamed_logical_branch(n["items"], defs, x, indices) or hit
        return hit
    if k == "map":
        hit = False
        for x in v.values():
            hit = took_unnamed_logical_branch(n["values"], defs, x, indices) or hit
        return hit
    return False


def hint_kinds(node, defs, d, tuples):
    """Kinds of branches selected by hints inside d: 'nonnamed', 'enumfixed', 'record'."""
    out = set()
    n = names.deref(node, defs)
    k = n["k"]
    if k == "union":
        if tuples and isinstance(d, tuple) and len(d) == 2:
            for b in n["branches"]:
                if names.branch_name(b, defs) == d[0]:
                    bk = names.deref(b, defs)["k"]
                    kinds = [names.deref(x, defs)["k"] for x in n["branches"]]
                    if sum(1 for x in kinds if x in ("record", "enum", "fixed")) == 1:
                        out.add("single-named-union")
                    if sum(1 for x in kinds if x == "record") == 1:
                        out.add("single-record-union")
                    out.add("record" if bk == "record" else ("enumfixed" if bk in ("enum", "fixed") else "nonnamed"))
                    out |= hint_kinds(b, defs, d[1], tuples)
            return out
        for b in n["branches"]:
            if conform.conforms(b, defs, d, False, tuples):
                out |= hint_kinds(b, defs, d, tuples)
        return out
    if k == "array" and isinstance(d, (list, tuple)):
        for x in d:
            out |= hint_kinds(n["items"], defs, x, tuples)
    elif k == "map" and isinstance(d, dict):
        for x in d.values():
            out |= hint_kinds(n["values"], defs, x, tuples)
    elif k == "record" and isinstance(d, dict):
        if "-type" in d:
            out |= {"record", "single-named-union", "single-record-union"}
        for f in n["fields"]:
            if f["name"] in d:
                out |= hint_kinds(f["type"], defs, d[f["name"]], tuples)
    return out


def _names_no_branch(node, defs, d, tuples):
    """Does d contain, at a union position, a tuple hint whose name matches no branch?"""
    n = names.deref(node, defs)
    k = n["k"]
    if k == "union":
        if tuples and isinstance(d, tuple) and len(d) == 2 and isinstance(d[0], str):
            return all(names.branch_name(b, defs) != d[0] for b in n["branches"])
        return False
    if k == "array" and isinstance(d, (list, tuple)):
        return any(_names_no_branch(n["items"], defs, x, tuples) for x in d)
    if k == "map" and isinstance(d, dict):
        return any(_names_no_branch(n["values"], defs, x, tuples) for x in d.values())
    if k == "record" and isinstance(d, dict):
        return any(_names_no_branch(f["type"], defs, d[f["name"]], tuples) for f in n["fields"] if f["name"] in d)
    return False


_UNIONS = {}


def twin_union(u):
    """The same union with every named branch REDEFINED under the same name (enum: other symbols in another order,
    fixed: other size, record: one more required field): what a later schema version looks like.  Anything the
    library remembers per type name from the first version shows when the twin is used in the same process."""
    out = []
    for b in copy.deepcopy(u):
        if isinstance(b, dict) and b.get("type") == "enum":
            b["symbols"] = ["ZZ"] + list(reversed(b["symbols"][1:])) + ["YY"]
        elif isinstance(b, dict) and b.get("type") == "fixed":
            b["size"] += 1
        elif isinstance(b, dict) and b.get("type") == "record":
            b["fields"] = [{"name": "tw", "type": "boolean"}] + b["fields"]
        out.append(b)
    return out


def units(tier):
    _UNIONS[tier] = unions(tier)
    return list(range(len(_UNIONS[tier])))


def run_unit(i, tier):
    import fastavro as fa

    res = UnitResult()
    if tier not in _UNIONS:
        _UNIONS[tier] = unions(tier)
    u = _UNIONS[tier][i]
    nseen = 0
    ctxs = contexts(u)
    tw = twin_union(u)
    if len(u) > 20:
        ctxs, tw = ctxs[:3], u
    if tw != u:
        # version 2 of the named types, then version 1 again, in the same process
        ctxs += [("twin:" + c, r) for c, r in contexts(tw)[:2]] + [("again:" + c, r) for c, r in contexts(u)[:2]]
    for ctx, raw in ctxs:
        if ctx.startswith("twin:"):
            u = tw
        elif ctx.startswith("again:"):
            u = _UNIONS[tier][i]
        ctx = ctx.split(":")[-1]
        node, defs = names.resolve(raw)
        try:
            parsed = fa.parse_schema(copy.deepcopy(raw))
        except Exception as e:
            res.add(Violation("c09.parse", f"union-schema-rejected:{type(e).__name__}", f"{e} | {short(raw, 300)}", {"schema": raw, "datum": None, "disable_tuple_notation": False}))
            continue
        seen = set()
        if ctx == "by-name":
            unode = [f for f in names.deref(node, defs)["fields"] if f["name"] == "u"][0]["type"]
            base = alphabet.base(node, defs)
            udata = [d for d, c in alphabet.variants(unode, defs, 1, hints=True, big=False)] + [x for x in ambiguous(u)]
            # hints must use full names in this context
            fixed = []
            for d in udata:
                if isinstance(d, tuple) and len(d) == 2 and d[0] in ("A", "B", "C", "E", "E2", "F", "A2", "ZA", "Labelled", "MaybeLabelled", "Narrow", "Wide", "Comment", "Article", "Money"):
                    fixed.append(("nsw." + d[0], d[1]))
                if isinstance(d, dict) and d.get("-type") in ("A", "B", "C", "A2", "ZA", "Labelled", "MaybeLabelled", "Narrow", "Wide", "Comment", "Article", "Money"):
                    fixed.append(dict(d, **{"-type": "nsw." + d["-type"]}))
                fixed.append(d)
            data = [dict(base, u=d) for d in fixed]
        else:
            unode = node
            if len(u) > 20:
                # a very wide union: every branch once plain and once hinted (indices beyond 63 need a second index byte)
                un, ud = names.resolve(copy.deepcopy(u))
                udata = []
                for br in un["branches"]:
                    v = alphabet.base(br, ud)
                    udata += [v, (names.branch_name(br, ud), v)]
            else:
                udata = [d for d, c in alphabet.variants(names.resolve(copy.deepcopy(u))[0], names.resolve(copy.deepcopy(u))[1], 1, hints=True, big=False)]
                udata += ambiguous(u)
            data = [embed(ctx, d) for d in udata]
        for d in data:
            for disable in (False, True):
                check(fa, res, raw, parsed, node, defs, d, disable, seen)
        nseen += len(seen)
    res.distinct = nseen
    res.sample({"union": u, "cases": nseen})
    return res


def replay(case):
    import fastavro as fa

    res = UnitResult()
    raw = case["schema"]
    node, defs = names.resolve(raw)
    parsed = fa.parse_schema(copy.deepcopy(raw))
    check(fa, res, raw, parsed, node, defs, case["datum"], case["disable_tuple_notation"], set())
    return res.violations


def standalone(case):
    return ("import io, sys, datetime; sys.path.insert(0, '/repo')\nimport fastavro\n"
            f"schema = {case['schema']!r}\ndatum = {case['datum']!r}\n"
            f"fo = io.BytesIO(); fastavro.schemaless_writer(fo, schema, datum, disable_tuple_notation={case['disable_tuple_notation']}); print(fo.getvalue().hex())\n")
