"""C11 — parse_schema accepts valid schemas with names per the specification and
rejects ill-formed ones."""
import copy
import json

from ..harness import UnitResult, Violation, short, note_case
from .. import family
from ..ref import names, canon
from .c13 import positions, get, put, schema_list, namespace_variants

LEVEL = "exploration"
RULE = (
    "valid side: every schema of the family, the named-type/namespace family and namespace re-spellings must parse; the keys "
    "of the filled named_schemas table must equal the reference's set of full names and the canonical form (which shows the "
    "name of every named type and the target of every reference) must equal the reference's. Invalid side: EVERY schema "
    "obtained by ONE ill-forming mutation at EVERY position (top level, field, array items, map values, union branch, any "
    "depth of the family): reference to an undefined name; a name defined twice (nested, sibling fields, two branches of a "
    "union, inside array items/map values); named type without name; enum symbol malformed / duplicated / non-string; enum "
    "default not a symbol; field default whose JSON type cannot match the field type (table null/boolean/int/float/string/"
    "array/object, unions: no branch matches); decimal precision/scale negative, non-integer, scale>precision, precision "
    "beyond the fixed size for sizes 1..16 (boundary precisions max and max+1). SchemaParseException or UnknownType "
    "required. distinct_nontrivial = distinct schema texts parsed."
    ' Enum defaults outside the symbol list include the falsy JSON values; every family schema with an outermost named type is also spelled with a dotted name AND a contradicting namespace attribute.'
)
ASSUMPTIONS = [
    "reference name resolution mc/ref/names.py; ambiguous spellings (scale 0.0, precision 0, True as a number for float) are kept out of the mutation alphabet",
    "pure-Python fastavro only (Cython absent)",
]
UNIT_TIMEOUT_S = 900
PRIMS = family.PRIMS


def units(tier):
    n = len(schema_list(tier))
    return list(range(n)) + [("decimal", size) for size in range(0, 17)] + [("handmade",)]


# JSON-type table for defaults: value samples per JSON type
JSON_SAMPLES = {"null": None, "boolean": True, "integer": 5, "number": 1.5, "string": "s", "array": [], "object": {}}
ACCEPT = {
    "null": {"null"}, "boolean": {"boolean"}, "int": {"integer"}, "long": {"integer"}, "float": {"integer", "number"},
    "double": {"integer", "number"}, "string": {"string"}, "bytes": {"string"}, "fixed": {"string"}, "enum": {"string"},
    "array": {"array"}, "map": {"object"}, "record": {"object"}, "error": {"object"},
}


def kind_of(root, t):
    """Avro kind of a type expression (following by-name references inside root)."""
    if isinstance(t, list):
        return "union"
    if isinstance(t, dict):
        k = t["type"]
        if isinstance(k, (dict, list)):
            return kind_of(root, k)
        return k if k in ACCEPT else kind_of(root, k)
    if t in PRIMS:
        return t
    short_name = t.split(".")[-1]
    found = []

    def walk(x):
        if isinstance(x, list):
            for b in x:
                walk(b)
        elif isinstance(x, dict):
            if x.get("type") in ("record", "enum", "fixed", "error") and x.get("name", "").split(".")[-1] == short_name:
                found.append(x["type"])
            for k in ("items", "values"):
                if k in x:
                    walk(x[k])
            if x.get("type") in ("record", "error"):
                for f in x.get("fields", []):
                    walk(f["type"])

    walk(root)
    return found[0] if found else None


def bad_defaults(root, ftype):
    """JSON values that cannot be a default for ftype (by JSON type)."""
    k = kind_of(root, ftype)
    if k is None:
        return []
    if k == "union":
        ok = set()
        for b in ftype:
            kb = kind_of(root, b)
            if kb is None or kb == "union":
                return []
            ok |= ACCEPT[kb]
    else:
        ok = ACCEPT[k]
    out = []
    for jt, v in JSON_SAMPLES.items():
        if jt in ok:
            continue
        if jt == "boolean" and ("integer" in ok or "number" in ok):
            continue  # True is an int for Python: ambiguous spelling, kept out (stated in the evidence)
        if jt == "integer" and "number" in ok:
            continue
        out.append((jt, v))
    return out


def first_named(s):
    for path, kind in positions(s):
        if kind == "schema":
            n = get(s, path)
            if n.get("type") in ("record", "enum", "fixed", "error"):
                return path, n
    return None


def mutations(s):
    out = []
    named = first_named(s)
    for path, kind in positions(s):
        node = get(s, path)

        def mut(newnode, label, path=path):
            c = copy.deepcopy(s)
            out.append((label, put(c, path, newnode)))

        # undefined reference at every type position
        if kind in ("schema", "name") and path:
            mut("Undefined", "undefined-ref")
            mut("some.ns.Missing", "undefined-ref-dotted")
        if kind == "schema":
            t = node.get("type")
            if t in ("record", "enum", "fixed", "error"):
                mut({k: v for k, v in node.items() if k != "name"}, "named-without-name")
                # the same definition again next to it (as a union / extra field)
                if t in ("record", "error"):
                    dup = copy.deepcopy(node)
                    dup["fields"] = list(dup["fields"]) + [{"name": "dup__", "type": _strip_inner_names(copy.deepcopy(node))}]
                    mut(dup, "redefined-nested")
            if t == "enum":
                for bad, lab in (("1A", "digit-first"), ("a-b", "dash"), ("", "empty"), ("é", "non-ascii"), ("a b", "space"), ("A\n", "trailing-newline"),
                                 ("\nA", "leading-newline"), ("A\x00", "nul"), ("A.B", "dot"), (" A", "leading-space"), ("A ", "trailing-space"), ("A\r", "trailing-cr")):
                    mut(dict(node, symbols=node["symbols"][:1] + [bad]), "enum-symbol-" + lab)
                mut(dict(node, symbols=node["symbols"] + [node["symbols"][0]]), "enum-symbol-duplicate")
                mut(dict(node, symbols=node["symbols"] + [5]), "enum-symbol-non-string")
                mut(dict(node, default="NOT_A_SYMBOL"), "enum-default-not-a-symbol")
                for bad in ("", 0, False, [], {}, None, 1.5, node["symbols"][0].lower(), node["symbols"][0] + " "):
                    if bad not in node["symbols"]:
                        mut(dict(node, default=bad), "enum-default-not-a-symbol:" + json.dumps(bad))
            if t in ("record", "error") and len(node["fields"]) >= 2:
                f0 = node["fields"][0]["type"]
                if isinstance(f0, dict) and f0.get("type") in ("record", "enum", "fixed"):
                    c = copy.deepcopy(node)
                    c["fields"][1] = dict(c["fields"][1], type=copy.deepcopy(f0))
                    mut(c, "redefined-sibling-fields")
            if t == "array" and isinstance(node["items"], dict) and node["items"].get("type") in ("record", "enum", "fixed"):
                mut([copy.deepcopy(node), copy.deepcopy(node["items"])], "redefined-across-union-branches") if not path else None
        if kind == "field":
            for jt, v in bad_defaults(s, node["type"]):
                mut(dict(node, default=v), "default-json-type:" + jt)
        if kind == "union" and named is not None:
            # the first named definition of the schema repeated as an extra branch
            n = named[1]
            if not any(isinstance(b, dict) and b.get("name") == n.get("name") for b in node) and named[0][: len(path)] != path:
                pass
            if any(isinstance(b, dict) and b.get("type") in ("record", "enum", "fixed") for b in node):
                b0 = [b for b in node if isinstance(b, dict) and b.get("type") in ("record", "enum", "fixed")][0]
                other = copy.deepcopy(b0)
                if other["type"] == "record":
                    other["fields"] = [{"name": "different", "type": "int"}]
                elif other["type"] == "enum":
                    other["symbols"] = ["OTHER"]
                else:
                    other["size"] = other["size"] + 1
                mut(list(node) + [other], "redefined-across-union-branches")
    return out


def _strip_inner_names(n):
    """A second copy of a record definition with the same name (its nested named
    types replaced by references so that only one name is defined twice)."""
    seen = set()

    def walk(x, top):
        if isinstance(x, list):
            return [walk(b, False) for b in x]
        if isinstance(x, dict):
            t = x.get("type")
            if t in ("record", "enum", "fixed", "error") and not top:
                return x["name"]
            x = dict(x)
            if t in ("record", "error"):
                x["fields"] = [dict(f, type=walk(f["type"], False)) for f in x["fields"]]
            elif t == "array":
                x["items"] = walk(x["items"], False)
            elif t == "map":
                x["values"] = walk(x["values"], False)
            return x
        return x

    return walk(n, True)


def expect_reject(fa, res, original, variant, label, seen):
    from fastavro._schema_common import SchemaParseException, UnknownType

    txt = json.dumps(variant, sort_keys=True, default=str)
    if txt in seen:
        return
    seen.add(txt)
    # the reference must agree the mutant is ill-formed where it can judge (names)
    res.evals += 1
    info = {"schema": original, "variant": variant, "mutation": label}
    note_case(info)
    try:
        fa.parse_schema(copy.deepcopy(variant))
    except (SchemaParseException, UnknownType):
        # the same verdict when the caller asks for the expanded form
        for how, fn in (("expand=True", lambda: fa.parse_schema(copy.deepcopy(variant), expand=True)), ("expand_schema", lambda: fa.schema.expand_schema(copy.deepcopy(variant)))):
            try:
                fn()
            except (SchemaParseException, UnknownType):
                continue
            except Exception as e:
                res.add(Violation("c11.reject", f"wrong-exception:{label}:{type(e).__name__}:{how}", f"ill-formed schema ({label}) under {how} raised {type(e).__name__}: {e} | {short(variant, 400)}", info))
                continue
            res.add(Violation("c11.reject", f"ill-formed-accepted:{label}:{how}", f"ill-formed schema ({label}) is rejected by parse_schema but accepted under {how} | {short(variant, 500)}", info))
        return
    except Exception as e:
        res.add(Violation("c11.reject", f"wrong-exception:{label}:{type(e).__name__}", f"ill-formed schema ({label}) raised {type(e).__name__}: {e} instead of a schema-parse/unknown-type error | {short(variant, 400)}", info))
        return
    res.add(Violation("c11.reject", f"ill-formed-accepted:{label}", f"ill-formed schema ({label}) was accepted | {short(variant, 500)}", info))


def expect_accept(fa, res, raw, label, seen):
    txt = json.dumps(raw, sort_keys=True)
    if txt in seen:
        return
    seen.add(txt)
    res.evals += 1
    info = {"schema": raw, "variant": raw, "mutation": "valid:" + label}
    note_case(info)
    node, defs = names.resolve(raw)
    table = {}
    try:
        parsed = fa.parse_schema(copy.deepcopy(raw), table)
    except Exception as e:
        res.add(Violation("c11.accept", f"valid-rejected:{label}:{type(e).__name__}", f"valid schema rejected: {type(e).__name__}: {e} | {short(raw, 500)}", info))
        return
    if set(table) != set(defs):
        res.add(Violation("c11.names", "named-schemas-keys", f"named_schemas keys {sorted(table)} != specification's full names {sorted(defs)} | {short(raw, 400)}", info))
    for full, d in table.items():
        if d.get("name") != full:
            res.add(Violation("c11.names", "table-entry-name", f"named_schemas[{full!r}] carries name {d.get('name')!r}", info))
    try:
        cf = fa.schema.to_parsing_canonical_form(parsed)
    except Exception as e:
        cf = f"raised {type(e).__name__}: {e}"
    want = canon.canonical((node, defs))
    if cf != want:
        res.add(Violation("c11.names", "names-differ-from-spec", f"parsed schema shows names {cf!r}, specification gives {want!r}", info))


def valid_defaults(fa, res, raw, seen):
    """Every field given a default of each JSON type its type accepts must still parse."""
    for path, kind in positions(raw):
        if kind != "field":
            continue
        f = get(raw, path)
        k = kind_of(raw, f["type"])
        if k is None:
            continue
        ks = [kind_of(raw, b) for b in f["type"]] if k == "union" else [k]
        if None in ks or "union" in ks:
            continue
        okt = set().union(*[ACCEPT[x] for x in ks])
        for jt in okt:
            v = JSON_SAMPLES[jt]
            if jt == "string" and "enum" in ks:
                continue  # must be a declared symbol: covered by the family's own defaults
            if jt == "object" and ("record" in ks or "error" in ks):
                continue  # must carry the record's fields: covered by the family's own defaults
            c = copy.deepcopy(raw)
            put(c, path, dict(f, default=v))
            try:
                names.resolve(c)
            except Exception:
                continue
            expect_accept(fa, res, c, f"default-{jt}-for-{'|'.join(ks)}", seen)


def run_unit(u, tier):
    import fastavro as fa
    import fastavro.schema  # noqa

    res = UnitResult()
    seen = set()
    if isinstance(u, tuple) and u[0] == "decimal":
        size = u[1]
        maxp = int((8 * size - 1) * 0.30102999566398120) if size else 0
        for base in ("fixed", "bytes"):
            if base == "bytes" and size not in (0, 1):
                continue

            def mk(**kw):
                d = {"type": "fixed", "name": "Dec", "size": size} if base == "fixed" else {"type": "bytes"}
                d["logicalType"] = "decimal"
                d.update(kw)
                return d

            wrap = lambda s: {"type": "record", "name": "W", "fields": [{"name": "d", "type": s}, {"name": "arr", "type": {"type": "array", "items": ["null", "int"]}}]}  # noqa
            ok_p = maxp if base == "fixed" else 5
            if ok_p >= 1:
                for sc in sorted({0, 1, ok_p}):
                    if sc <= ok_p:
                        expect_accept(fa, res, mk(precision=ok_p, scale=sc), "decimal-ok", seen)
                        expect_accept(fa, res, wrap(mk(precision=ok_p, scale=sc)), "decimal-ok-nested", seen)
                expect_accept(fa, res, mk(precision=1), "decimal-ok-noscale", seen)
            if base == "fixed":
                for p in (maxp + 1, maxp + 2, 10 * (maxp + 1)):
                    expect_reject(fa, res, None, mk(precision=p, scale=0), "decimal-precision-exceeds-size", seen)
                    expect_reject(fa, res, None, wrap(mk(precision=p, scale=0)), "decimal-precision-exceeds-size-nested", seen)
            p0 = max(ok_p, 1)
            if base == "bytes" or maxp >= 1:
                # the well-formed annotation first, then the same numbers spelled as floats (9.0 is not an integer in JSON terms)
                expect_accept(fa, res, mk(precision=p0, scale=0), "decimal-ok", seen)
                expect_reject(fa, res, None, mk(precision=float(p0), scale=0), "decimal-precision-integral-float", seen)
                if p0 >= 2:
                    expect_accept(fa, res, mk(precision=p0, scale=1), "decimal-ok", seen)
                    expect_reject(fa, res, None, mk(precision=p0, scale=1.0), "decimal-scale-integral-float", seen)
                for bad, lab in ((-1, "negative"), (1.5, "fraction"), ("2", "string")):
                    expect_reject(fa, res, None, mk(precision=bad, scale=0), "decimal-precision-" + lab, seen)
                    expect_reject(fa, res, None, mk(precision=p0, scale=bad), "decimal-scale-" + lab, seen)
                    expect_reject(fa, res, None, wrap(mk(precision=p0, scale=bad)), "decimal-scale-" + lab + "-nested", seen)
                expect_reject(fa, res, None, mk(precision=p0, scale=p0 + 1), "decimal-scale-above-precision", seen)
                expect_reject(fa, res, None, {"type": "array", "items": mk(precision=p0, scale=p0 + 1)}, "decimal-scale-above-precision-in-array", seen)
        res.distinct = len(seen)
        res.sample({"decimal_fixed_size": size, "max_precision": maxp, "cases": len(seen)})
        return res
    if isinstance(u, tuple) and u[0] == "handmade":
        R = lambda *fs: {"type": "record", "name": "R", "fields": [{"name": "f%d" % i, "type": t} for i, t in enumerate(fs)]}  # noqa
        E = {"type": "enum", "name": "E", "symbols": ["A"]}
        for lab, s in [
            ("redefined-across-union-branches", [E, {"type": "record", "name": "E", "fields": []}]),
            ("redefined-across-union-branches", [R("int"), "null", R("string")]),
            ("redefined-in-map-values", R(E, {"type": "map", "values": {"type": "enum", "name": "E", "symbols": ["B"]}})),
            ("redefined-in-array-items", R({"type": "array", "items": E}, {"type": "array", "items": E})),
            ("redefined-self", {"type": "record", "name": "R", "fields": [{"name": "r", "type": {"type": "record", "name": "R", "fields": []}}]}),
            ("redefined-namespace-spelling", R({"type": "fixed", "name": "F", "namespace": "n", "size": 1}, {"type": "fixed", "name": "n.F", "size": 1})),
            ("undefined-ref", "Nope"), ("undefined-ref", ["null", "Nope"]), ("undefined-ref", {"type": "array", "items": "Nope"}),
            ("undefined-ref-forward", R("Later", {"type": "enum", "name": "Later", "symbols": ["A"]})),
            ("undefined-ref-wrong-namespace", {"type": "record", "name": "R", "namespace": "n", "fields": [
                {"name": "a", "type": {"type": "enum", "name": "o.E", "symbols": ["A"]}}, {"name": "b", "type": "E"}]}),
            ("undefined-ref-ignored-namespace-attribute", {"type": "record", "name": "com.acme.Order", "namespace": "legacy", "fields": [
                {"name": "s", "type": {"type": "enum", "name": "Status", "symbols": ["A"]}}, {"name": "t", "type": "legacy.Status"}]}),
            ("named-without-name", {"type": "enum", "symbols": ["A"]}), ("named-without-name", {"type": "fixed", "size": 2}),
            ("named-without-name", {"type": "record", "fields": []}),
            ("default-json-type:union-no-branch", R("int") | {"fields": [{"name": "u", "type": ["null", {"type": "array", "items": "int"}], "default": 5}]}),
            ("default-json-type:union-no-branch", R("int") | {"fields": [{"name": "u", "type": ["string", {"type": "map", "values": "int"}], "default": []}]}),
            ("default-json-type:by-name-record", {"type": "record", "name": "R", "fields": [{"name": "a", "type": R("int") | {"name": "In"}}, {"name": "b", "type": "In", "default": "str"}]}),
            ("default-json-type:annotated-long", R("int") | {"fields": [{"name": "t", "type": {"type": "long", "logicalType": "timestamp-millis"}, "default": "now"}]}),
            ("default-json-type:annotated-int", R("int") | {"fields": [{"name": "t", "type": {"type": "int", "logicalType": "date"}, "default": "2020-01-01"}]}),
            ("default-json-type:annotated-string", R("int") | {"fields": [{"name": "t", "type": {"type": "string", "logicalType": "uuid"}, "default": 7}]}),
            ("default-json-type:annotated-long-null", R("int") | {"fields": [{"name": "t", "type": {"type": "long", "logicalType": "time-micros"}, "default": None}]}),
            ("default-json-type:annotated-bytes", R("int") | {"fields": [{"name": "t", "type": {"type": "bytes", "logicalType": "decimal", "precision": 4, "scale": 1}, "default": 1.5}]}),
            ("default-json-type:annotated-unknown-logical", R("int") | {"fields": [{"name": "t", "type": {"type": "int", "logicalType": "made-up"}, "default": "x"}]}),
            ("default-json-type:custom-attr-prim", R("int") | {"fields": [{"name": "t", "type": {"type": "boolean", "note": "x"}, "default": 1.5}]}),
            ("default-json-type:by-name-enum", {"type": "record", "name": "R", "fields": [{"name": "a", "type": E}, {"name": "b", "type": "E", "default": 5}]}),
        ]:
            expect_reject(fa, res, None, s, lab, seen)
        for lab, s in [
            ("annotated-long-int-default", R("int") | {"fields": [{"name": "t", "type": {"type": "long", "logicalType": "timestamp-millis"}, "default": 0}]}),
            ("annotated-string-default", R("int") | {"fields": [{"name": "t", "type": {"type": "string", "logicalType": "uuid"}, "default": "12345678-1234-1234-1234-123456789abc"}]}),
            ("double-int-default", R("int") | {"fields": [{"name": "d", "type": {"type": "double"}, "default": 1}]}),
            ("float-int-default", R("int") | {"fields": [{"name": "d", "type": "float", "default": 1}]}),
            ("forward-ref-inside-own-record", {"type": "record", "name": "R", "fields": [{"name": "r", "type": ["null", "R"], "default": None}]}),
            ("dotted-name-beats-namespace-attribute", {"type": "record", "name": "com.acme.Order", "namespace": "legacy", "fields": [
                {"name": "s", "type": {"type": "enum", "name": "Status", "symbols": ["A"]}}, {"name": "l", "type": {"type": "array", "items": {"type": "record", "name": "Line", "fields": [{"name": "s", "type": "Status"}]}}},
                {"name": "t", "type": "com.acme.Status"}, {"name": "u", "type": ["null", "Line"]}, {"name": "v", "type": {"type": "map", "values": "com.acme.Line"}}]}),
            ("dotted-name-beats-namespace-attribute-nested", {"type": "record", "name": "Top", "namespace": "t", "fields": [
                {"name": "o", "type": {"type": "record", "name": "com.acme.Order", "namespace": "legacy", "fields": [{"name": "f", "type": {"type": "fixed", "name": "Id", "size": 2}}]}},
                {"name": "i", "type": "com.acme.Id"}]}),
            ("fixed-default-high-code-points", R({"type": "fixed", "name": "Magic", "size": 4}) | {"fields": [{"name": "m", "type": {"type": "fixed", "name": "Magic", "size": 4}, "default": "\u00ca\u00fe\u00ba\u00be"},
                                                                                                          {"name": "b", "type": "bytes", "default": "Obj\u00ff"}]}),
            ("enum-300-symbols", {"type": "enum", "name": "Many", "symbols": ["S%d" % i for i in range(300)]}),
            ("enum-256-symbols", R({"type": "enum", "name": "Many", "symbols": ["S%d" % i for i in range(256)]})),
            ("enum-257-symbols", R({"type": "enum", "name": "Many", "symbols": ["S%d" % i for i in range(257)]})),
            ("enum-1000-symbols-with-default", {"type": "enum", "name": "Many", "symbols": ["S%d" % i for i in range(1000)], "default": "S999"}),
            ("record-300-fields", {"type": "record", "name": "Wide", "fields": [{"name": "f%d" % i, "type": "int"} for i in range(300)]}),
            ("union-300-named-branches", [{"type": "fixed", "name": "Fx%d" % i, "size": 1} for i in range(300)]),
            ("same-short-name-two-namespaces", R({"type": "fixed", "name": "a.F", "size": 1}, {"type": "fixed", "name": "b.F", "size": 2})),
        ]:
            expect_accept(fa, res, s, lab, seen)
        # a named type that went through parse_schema on its own and is then embedded in another schema: it is a schema
        # dict like any other and takes the namespace of where it now stands
        for kind, child in (("record", {"type": "record", "name": "Child", "fields": [{"name": "x", "type": "int"}, {"name": "k", "type": {"type": "enum", "name": "CK", "symbols": ["A"]}}]}),
                            ("enum", {"type": "enum", "name": "Child", "symbols": ["A", "B"]}), ("fixed", {"type": "fixed", "name": "Child", "size": 2})):
            for ref in ("Child", "com.acme.Child"):
                pre = fa.parse_schema(copy.deepcopy(child))
                outer_raw = {"type": "record", "name": "com.acme.Parent", "fields": [{"name": "c", "type": copy.deepcopy(child)}, {"name": "again", "type": ["null", ref]},
                                                                                   {"name": "many", "type": {"type": "array", "items": ref}}]}
                outer_mixed = {"type": "record", "name": "com.acme.Parent", "fields": [{"name": "c", "type": pre}, {"name": "again", "type": ["null", ref]},
                                                                                     {"name": "many", "type": {"type": "array", "items": ref}}]}
                res.evals += 1
                seen.add(f"embedded-{kind}-{ref}")
                info = {"schema": outer_raw, "variant": outer_raw, "mutation": f"valid:embedded-pre-parsed-{kind}"}
                node_, defs_ = names.resolve(copy.deepcopy(outer_raw))
                want = canon.canonical((node_, defs_))
                table = {}
                try:
                    got = fa.schema.to_parsing_canonical_form(fa.parse_schema(outer_mixed, table))
                except Exception as e:
                    res.add(Violation("c11.accept", f"valid-rejected:embedded-pre-parsed-{kind}:{type(e).__name__}", f"a schema embedding an already parsed {kind} 'Child' and referring to it as {ref!r} was rejected: {type(e).__name__}: {e}", info))
                    continue
                if got != want or set(table) != set(defs_):
                    res.add(Violation("c11.names", "names-differ-from-spec:embedded-pre-parsed", f"embedded pre-parsed {kind}: names {sorted(table)} / {got!r}, specification gives {sorted(defs_)} / {want!r}", info))
            # and the same name defined a second time elsewhere in the parent is still a redefinition
            pre = fa.parse_schema(copy.deepcopy(child))
            dup = {"type": "record", "name": "com.acme.Parent", "fields": [{"name": "c", "type": pre}, {"name": "d", "type": {"type": "fixed", "name": "Child", "size": 9}}]}
            res.evals += 1
            try:
                fa.parse_schema(dup)
                res.add(Violation("c11.reject", "ill-formed-accepted:redefined-after-embedded-pre-parsed", f"'Child' embedded pre-parsed and defined again was accepted", {"schema": None, "variant": None, "mutation": "redefined-after-embedded"}))
            except Exception:
                pass
        res.distinct = len(seen)
        res.sample({"handmade": len(seen)})
        return res
    raw = schema_list(tier)[u]
    bases = [raw]
    for a, b in namespace_variants(raw):
        bases += [a, b]
    for a, b in namespace_variants(raw):
        # a dotted name wins over an explicit namespace attribute, for the type itself and for what it encloses
        bases.append(dict(b, namespace="legacy.ns"))
    for base in bases:
        expect_accept(fa, res, base, "family", seen)
        valid_defaults(fa, res, base, seen)
    for label, v in mutations(raw):
        # only keep mutants the reference also finds ill-formed, when it can judge
        if label.startswith(("undefined", "redefined", "named-without")):
            try:
                names.resolve(v)
                continue  # the mutation happened to yield a valid schema (e.g. shadowed by namespace): not a test
            except names.RefSchemaError:
                pass
            except Exception:
                pass
        expect_reject(fa, res, raw, v, label, seen)
    res.distinct = len(seen)
    res.sample({"schema": raw, "schemas_parsed": len(seen)})
    return res


def replay(case):
    import fastavro as fa
    import fastavro.schema  # noqa

    res = UnitResult()
    if case["mutation"].startswith("valid:"):
        expect_accept(fa, res, case["variant"], case["mutation"][6:], set())
    else:
        expect_reject(fa, res, case.get("schema"), case["variant"], case["mutation"], set())
    return res.violations


def standalone(case):
    return ("import sys; sys.path.insert(0, '/repo')\nimport fastavro\n"
            f"print(fastavro.parse_schema({case['variant']!r}))  # {case['mutation']}\n")
