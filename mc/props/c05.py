"""C05 — the container layout interoperates both ways with an independent
implementation; block_reader tiles the file; is_avro is exactly the magic test."""
import copy
import glob
import io
import itertools
import json
import os
import tempfile

from ..harness import UnitResult, Violation, short, note_case, REPO
from .. import cont
from ..values import same
from ..ref import names, conform, binary, canon, container
from .c03 import Odometer

LEVEL = "exploration"
RULE = (
    "(a) every file of the C04 family (top-level kinds x record lists x codec x every sync_interval of the small-file rule, "
    "compression levels) is parsed by the independent container parser: magic, metadata map, 16-byte marker equal to the one "
    "supplied, blocks count|size|payload|marker, payload decompressed with zlib(raw)/bz2/lzma and decoded by the independent "
    "binary decoder; (b) for record lists of <=4 records the independent writer emits EVERY composition into blocks with up "
    "to two empty blocks at any position x every chunking of the metadata map (each chunk positive or negative form) x codec "
    "key present/absent (null) x each codec; reader and block_reader must return the records; (c) all Java-written fixture "
    "files under tests/avro-files parsed by both and compared; (d) is_avro on every byte string of length <=6 over "
    "{O,b,j,01,00,X} (buffer) and a subset as paths, plus every file above: answer == startswith(magic); (e) block_reader "
    "offsets/sizes contiguous from end of header to end of file and counts summing to the record count, for every file of "
    "(a),(b),(c),(f); (f) files grown by two re-openings for append (same codec argument, none, another codec, another marker) "
    "parsed by the independent parser: records, unchanged header codec and marker; (g) files assembled with write_block from donor "
    "files of every codec, the donor blocks untouched or iterated first. distinct_nontrivial = distinct files (byte strings) examined."
    ' Append files (f) are also produced with the stream cursor left after the magic, mid-file, and after one record was read; the independent parser rejects zero-length compressed payloads.'
)
ASSUMPTIONS = [
    "independent parser/writer mc/ref/container.py + mc/ref/binary.py; zlib/bz2/lzma of the standard library are the codec reference",
    "fixture files with the snappy codec are skipped (library not importable here) and counted in stats",
    "pure-Python fastavro only (Cython absent)",
]
UNIT_TIMEOUT_S = 900


def units(tier):
    import fastavro.write as w

    codecs, _ = cont.available_codecs(w)
    us = [("a", si, c) for si in range(len(cont.top_schemas())) for c in codecs]
    us += [("b", si, c) for si in (2, 8, 13, 14, 16) for c in codecs]
    us += [("f", si, c) for si in (2, 8, 14, 15) for c in codecs]
    us += [("g", si, c) for si in (2, 8, 14, 15) for c in codecs]
    us += [("h", c) for c in codecs]
    us += [("i", c) for c in codecs]
    us += [("k", c) for c in codecs]
    us += [("c", os.path.basename(f)) for f in sorted(glob.glob(os.path.join(REPO, "tests", "avro-files", "*.avro")))]
    us += [("d", first) for first in range(6)]
    return us


def tiling(res, fa, data, info, nrecords, hdr_end, exp=None):
    res.evals += 1
    try:
        blocks = list(fa.block_reader(io.BytesIO(data)))
    except Exception as e:
        res.add(Violation("c05.tiling", f"block-reader-raised:{type(e).__name__}", f"block_reader raised {type(e).__name__}: {e} | {short(info, 400)}", info))
        return
    pos = hdr_end
    total = 0
    for b in blocks:
        if b.offset != pos:
            res.add(Violation("c05.tiling", "offset-gap", f"block offset {b.offset}, expected {pos} | {short(info, 400)}", info))
            return
        pos = b.offset + b.size
        total += b.num_records
    if pos != len(data):
        res.add(Violation("c05.tiling", "not-to-eof", f"blocks end at {pos}, file is {len(data)} bytes | {short(info, 400)}", info))
    if total != nrecords:
        res.add(Violation("c05.tiling", "count-sum", f"block counts sum to {total}, records {nrecords} | {short(info, 400)}", info))
    if exp is not None:
        try:
            got = [r for b in blocks for r in b]
        except Exception as e:
            res.add(Violation("c05.tiling", f"block-iter-raised:{type(e).__name__}", f"iterating blocks raised {type(e).__name__}: {e} | {short(info, 400)}", info))
            return
        if len(got) != len(exp) or not all(same(a, b) for a, b in zip(got, exp)):
            res.add(Violation("c05.tiling", "block-records-differ", f"block_reader records {short(got, 200)} expected {short(exp, 200)} | {short(info, 400)}", info))


def is_avro_check(res, fa, data, info, tmpdir=None):
    res.evals += 1
    want = data[:4] == b"Obj\x01"
    try:
        got = fa.is_avro(io.BytesIO(data))
    except Exception as e:
        got = f"raised {type(e).__name__}: {e}"
    if got is not want:
        res.add(Violation("c05.is_avro", "is-avro-buffer", f"is_avro(buffer {data[:8]!r}) = {got!r}, expected {want} | {short(info, 200)}", dict(info, data=data)))
    if tmpdir is not None:
        p = os.path.join(tmpdir, "x.bin")
        with open(p, "wb") as f:
            f.write(data)
        try:
            got = fa.is_avro(p)
        except Exception as e:
            got = f"raised {type(e).__name__}: {e}"
        if got is not want:
            res.add(Violation("c05.is_avro", "is-avro-path", f"is_avro(path with {data[:8]!r}) = {got!r}, expected {want}", dict(info, data=data)))


def part_a(res, fa, si, codec, tier, seen):
    from .c04 import intervals

    name, raw = cont.top_schemas()[si]
    lists, node, defs = cont.record_lists(raw)
    exp_canon = canon.canonical((node, defs))
    marker = cont.sync_marker()
    for lname, recs in lists:
        exp = cont.expected(node, defs, recs)
        configs = [(iv, None) for iv in intervals(node, defs, recs, tier)] + [(1, 1), (1, 9), (16000, 9)] + ([(16000, l) for l in (0, 2, 3, 4, 5, 6, 7, 8)] if codec != "null" else [])
        for iv, lvl in configs:
            info = {"part": "a", "schema": raw, "records": recs, "codec": codec, "sync_interval": iv, "level": lvl}
            note_case(info)
            res.evals += 1
            fo = io.BytesIO()
            try:
                kw = {} if lvl is None else {"codec_compression_level": lvl}
                fa.writer(fo, copy.deepcopy(raw), copy.deepcopy(recs), codec=codec, sync_interval=iv, sync_marker=marker, **kw)
            except Exception as e:
                res.add(Violation("c05.a", f"write-raised:{type(e).__name__}", f"writer raised {e} | {short(info, 400)}", info))
                continue
            data = fo.getvalue()
            if data in seen:
                continue
            seen.add(data)
            try:
                p = container.parse(data)
                got, per_block = container.records(p)
            except Exception as e:
                res.add(Violation("c05.a", f"independent-parse-failed:{type(e).__name__}", f"independent parser rejects the file: {e} | {short(info, 400)}", info))
                continue
            if len(got) != len(exp) or not all(same(a, b) for a, b in zip(got, exp)):
                res.add(Violation("c05.a", "independent-records-differ", f"independent parser recovers {short(got, 200)} expected {short(exp, 200)} | {short(info, 400)}", info))
            if p["sync"] != marker:
                res.add(Violation("c05.a", "marker", f"header marker {p['sync'].hex()} != supplied {marker.hex()}", info))
            if p["meta"].get("avro.codec", b"null").decode() != codec:
                res.add(Violation("c05.a", "codec-key", f"avro.codec {p['meta'].get('avro.codec')!r} != {codec}", info))
            try:
                cf = canon.canonical(names.resolve(p["schema"]))
            except Exception as e:
                cf = f"unresolvable: {e}"
            if cf != exp_canon:
                res.add(Violation("c05.a", "header-schema", f"header schema canonical form {cf!r} != {exp_canon!r}", info))
            if any(b["count"] == 0 for b in p["blocks"]) and recs:
                res.stats["empty_blocks_written"] += 1
            tiling(res, fa, data, info, len(exp), p["hdr_end"], exp)
            is_avro_check(res, fa, data, info)


def part_f(res, fa, si, codec, tier, seen):
    """Files grown by re-opening for append (with the same, no, or another codec argument)
    are files the container writer can produce: they too must parse independently."""
    name, raw = cont.top_schemas()[si]
    lists, node, defs = cont.record_lists(raw)
    marker = cont.sync_marker()
    other = "deflate" if codec != "deflate" else "null"
    for lname, recs in lists:
        if not recs:
            continue
        exp = cont.expected(node, defs, recs)
        for how, kw, sch in (("same-codec", {"codec": codec}, raw), ("no-codec-arg", {}, None), ("other-codec", {"codec": other}, raw),
                             ("other-marker", {"codec": codec, "sync_marker": b"Z" * 16}, None)):
            for iv, cursor in ((1, "end"), (16000, "end"), (16000, "after-magic"), (1, "mid-file"), (16000, "after-first-record-read")):
                info = {"part": "f", "schema": raw, "records": recs, "codec": codec, "append": how, "sync_interval": iv, "cursor": cursor}
                note_case(info)
                res.evals += 1
                fo = io.BytesIO()

                def place(fo=fo, cursor=cursor):
                    # where the caller happens to have left the stream before appending
                    if cursor == "end":
                        fo.seek(0, 2)
                    elif cursor == "after-magic":
                        fo.seek(0)
                        fo.read(4)
                    elif cursor == "mid-file":
                        fo.seek(len(fo.getvalue()) // 2)
                    else:
                        fo.seek(0)
                        next(iter(fa.reader(fo)))

                try:
                    fa.writer(fo, copy.deepcopy(raw), copy.deepcopy(recs), codec=codec, sync_interval=iv, sync_marker=marker)
                    place()
                    fa.writer(fo, copy.deepcopy(sch) if sch is not None else None, copy.deepcopy(recs), sync_interval=iv, **kw)
                    place()
                    fa.writer(fo, None, copy.deepcopy(recs[:1]), **kw)
                except Exception as e:
                    res.add(Violation("c05.f", f"append-raised:{type(e).__name__}", f"appending raised {type(e).__name__}: {e} | {short(info, 400)}", info))
                    continue
                data = fo.getvalue()
                seen.add(data)
                want = exp + exp + exp[:1]
                try:
                    p = container.parse(data)
                    got, _ = container.records(p)
                except Exception as e:
                    res.add(Violation("c05.f", f"independent-parse-failed:{type(e).__name__}", f"independent parser rejects the appended file: {e} | {short(info, 400)}", info))
                    continue
                if len(got) != len(want) or not all(same(a, b) for a, b in zip(got, want)):
                    res.add(Violation("c05.f", "independent-records-differ", f"independent parser recovers {short(got, 200)} expected {short(want, 200)} | {short(info, 400)}", info))
                if p["meta"].get("avro.codec", b"null").decode() != codec or p["sync"] != marker:
                    res.add(Violation("c05.f", "header-changed-by-append", f"header codec/marker after append: {p['meta'].get('avro.codec')!r} {p['sync'].hex()} | {short(info, 300)}", info))
                tiling(res, fa, data, info, len(want), p["hdr_end"], want)


def part_i(res, fa, codec, seen):
    """One metadata dict handed to several writer() calls (different schemas, different codecs):
    each file's header must describe that file."""
    marker = cont.sync_marker()
    meta = {"app": "shared"}
    tops = cont.top_schemas()
    order = [2, 8, 9, 2, 13, 8]
    codecs = [codec, "null" if codec != "null" else "deflate", codec, "bzip2", codec, codec]
    for si, cd in zip(order, codecs):
        name, raw = tops[si]
        lists, node, defs = cont.record_lists(raw)
        recs = lists[2][1]
        exp = cont.expected(node, defs, recs)
        info = {"part": "i", "schema": raw, "records": recs, "codec": codec, "file_codec": cd}
        note_case(info)
        res.evals += 1
        fo = io.BytesIO()
        try:
            fa.writer(fo, copy.deepcopy(raw), copy.deepcopy(recs), codec=cd, sync_marker=marker, metadata=meta)
        except Exception as e:
            res.add(Violation("c05.i", f"write-raised:{type(e).__name__}", f"{e} | {short(info, 300)}", info))
            continue
        data = fo.getvalue()
        seen.add(data)
        try:
            p = container.parse(data)
            got, _ = container.records(p)
        except Exception as e:
            res.add(Violation("c05.i", f"independent-parse-failed:{type(e).__name__}", f"a file written with a metadata dict used before cannot be parsed: {e} | {short(info, 400)}", info))
            continue
        if len(got) != len(exp) or not all(same(a, b) for a, b in zip(got, exp)):
            res.add(Violation("c05.i", "independent-records-differ", f"{short(got, 200)} expected {short(exp, 200)} | {short(info, 300)}", info))
        if p["meta"].get("avro.codec", b"null").decode() != cd:
            res.add(Violation("c05.i", "codec-key", f"header codec {p['meta'].get('avro.codec')!r} != {cd!r} | {short(info, 300)}", info))
        if canon.canonical(names.resolve(p["schema"])) != canon.canonical((node, defs)):
            res.add(Violation("c05.i", "header-schema", f"header schema is not this file's schema | {short(info, 300)}", info))


def part_k(res, fa, codec, seen):
    """A codec argument in another spelling (letter case, padding): the writer may refuse it; if it accepts it, the file is a
    container file like any other - an independent parser recovers the records and the header names a codec the format defines."""
    S = {"type": "record", "name": "Rk", "fields": [{"name": "a", "type": "long"}, {"name": "s", "type": "string"}]}
    recs = [{"a": 1, "s": "x"}, {"a": -8192, "s": "é" * 40}]
    node, defs = names.resolve(S)
    exp = cont.expected(node, defs, recs)
    for spelled in (codec.capitalize(), codec.upper(), codec.title(), " " + codec, codec + " ", codec + "\n"):
        if spelled == codec:
            continue
        info = {"part": "k", "schema": S, "records": recs, "codec": spelled}
        note_case(info)
        res.evals += 1
        for how in ("writer", "Writer"):
            fo = io.BytesIO()
            try:
                if how == "writer":
                    fa.writer(fo, copy.deepcopy(S), copy.deepcopy(recs), codec=spelled, sync_marker=cont.sync_marker())
                else:
                    from fastavro._write_py import Writer

                    w = Writer(fo, copy.deepcopy(S), codec=spelled, sync_marker=cont.sync_marker())
                    for r in recs:
                        w.write(copy.deepcopy(r))
                    w.flush()
            except Exception:
                continue  # refused
            data = fo.getvalue()
            seen.add(data)
            try:
                p = container.parse(data)
                got, _ = container.records(p)
            except Exception as e:
                res.add(Violation("c05.k", f"independent-parse-failed:{type(e).__name__}:codec-spelling", f"{how} accepted codec={spelled!r}; an independent parser rejects the file: {e}", info))
                continue
            if len(got) != len(exp) or not all(same(a, b) for a, b in zip(got, exp)):
                res.add(Violation("c05.k", "independent-records-differ:codec-spelling", f"{how} accepted codec={spelled!r}; independent parser recovers {short(got, 200)}", info))


def part_m(res, fa, codec, seen):
    """A caller-supplied sync marker that is not 16 bytes long: refused, or else the file still is a container file."""
    S = {"type": "record", "name": "Rm", "fields": [{"name": "a", "type": "long"}, {"name": "s", "type": "string"}]}
    recs = [{"a": 1, "s": "x"}, {"a": -8192, "s": "é" * 40}, {"a": 3, "s": ""}]
    node, defs = names.resolve(S)
    exp = cont.expected(node, defs, recs)
    for n in (0, 1, 8, 15, 17, 32, 36):
        for iv in (1, 16000):
            marker = bytes(range(65, 65 + n))
            info = {"part": "m", "schema": S, "records": recs, "codec": codec, "marker_length": n, "sync_interval": iv}
            note_case(info)
            res.evals += 1
            fo = io.BytesIO()
            try:
                fa.writer(fo, copy.deepcopy(S), copy.deepcopy(recs), codec=codec, sync_marker=marker, sync_interval=iv)
            except Exception:
                continue  # refused
            data = fo.getvalue()
            seen.add(data)
            try:
                p = container.parse(data)
                got, _ = container.records(p)
            except Exception as e:
                res.add(Violation("c05.m", f"independent-parse-failed:{type(e).__name__}:marker-length", f"writer accepted a {n}-byte sync marker; an independent parser rejects the file: {e}", info))
                continue
            if len(got) != len(exp) or not all(same(a, b) for a, b in zip(got, exp)):
                res.add(Violation("c05.m", "independent-records-differ:marker-length", f"writer accepted a {n}-byte sync marker; independent parser recovers {short(got, 200)}", info))


class FailOnce:
    """A sink that refuses the n-th write() once (disk full), before taking any byte of it."""

    def __init__(self, nth):
        self.fo = io.BytesIO()
        self.calls = 0
        self.nth = nth
        self.failed = False

    def write(self, b):
        self.calls += 1
        if self.calls == self.nth and not self.failed:
            self.failed = True
            raise OSError(28, "No space left on device (injected)")
        return self.fo.write(b)

    def flush(self):
        pass

    def seekable(self):
        return False


def part_n(res, fa, codec, seen):
    """The stream refuses one write; when that write was the FIRST of a block, nothing of the block reached the stream, and
    a retried flush() must complete a file that an independent parser reads in full."""
    from fastavro._write_py import Writer

    S = {"type": "record", "name": "Rn", "fields": [{"name": "a", "type": "long"}, {"name": "s", "type": "string"}]}
    recs = [{"a": i, "s": "r%d" % i} for i in range(6)]
    node, defs = names.resolve(S)
    exp = cont.expected(node, defs, recs)
    # how many write() calls the header takes (so that the refused call is the first one of a block)
    probe = FailOnce(10 ** 9)
    Writer(probe, copy.deepcopy(S), codec=codec, sync_marker=cont.sync_marker())
    header_writes = probe.calls
    for first_block in (2, 6):
        sink = FailOnce(header_writes + 1)
        info = {"part": "n", "schema": S, "records": recs, "codec": codec, "fault": "first write of the first block refused once", "first_block_records": first_block}
        note_case(info)
        res.evals += 1
        try:
            w = Writer(sink, copy.deepcopy(S), codec=codec, sync_marker=cont.sync_marker(), sync_interval=10 ** 9)
            for r in recs[:first_block]:
                w.write(copy.deepcopy(r))
            try:
                w.flush()
                res.add(Violation("c05.n", "fault-swallowed", "the stream's write error did not reach the caller of flush()", info))
                continue
            except OSError:
                pass
            w.flush()  # retried
            for r in recs[first_block:]:
                w.write(copy.deepcopy(r))
            w.flush()
        except Exception as e:
            res.add(Violation("c05.n", f"retry-raised:{type(e).__name__}", f"after a refused first write of a block the retried flush raised {type(e).__name__}: {e}", info))
            continue
        data = sink.fo.getvalue()
        seen.add(data)
        try:
            got, _ = container.records(container.parse(data))
        except Exception as e:
            res.add(Violation("c05.n", f"independent-parse-failed:{type(e).__name__}:after-refused-write", f"file completed after a refused write is rejected by an independent parser: {e}", info))
            continue
        if len(got) != len(exp) or not all(same(a, b) for a, b in zip(got, exp)):
            res.add(Violation("c05.n", "independent-records-differ:after-refused-write", f"independent parser recovers {short(got, 200)} expected {short(exp, 200)}", info))


def part_o(res, fa, codec, seen):
    """Layout-valid files from the independent writer whose blocks are long, highly compressible runs a few bytes past
    multiples of 64 KiB (a decompressor fed in steps must hand back everything it produced)."""
    S = {"type": "record", "name": "Ro", "fields": [{"name": "i", "type": "int"}, {"name": "b", "type": "bytes"}]}
    node, defs = names.resolve(S)
    schema_json = json.dumps(S).encode()
    for sizes in ((65536 + 1,), (65536 + 2,), (131072 + 3, 65537), (65535,), (3 * 65536 + 1, 1)):
        recs = [{"i": k, "b": bytes(n)} for k, n in enumerate(sizes)]
        enc = []
        for r in recs:
            v, idx = conform.plan(node, defs, r)
            enc.append(binary.encode(node, defs, v, conform.Indices(idx)))
        for blocks in ([(len(recs), b"".join(enc))], [(1, e) for e in enc]):
            data = container.write([("avro.schema", schema_json), ("avro.codec", codec.encode())], [(2, False)], cont.sync_marker(), codec, blocks)
            seen.add(data[:200])
            info = {"part": "o", "schema": S, "records": f"<zero runs of {sizes}>", "codec": codec, "blocks": [b[0] for b in blocks]}
            note_case(info)
            res.evals += 1
            for ctor in ("reader", "block_reader"):
                try:
                    got = list(fa.reader(io.BytesIO(data))) if ctor == "reader" else [r for b in fa.block_reader(io.BytesIO(data)) for r in b]
                except Exception as e:
                    got = f"{type(e).__name__}: {e}"
                if got != recs:
                    res.add(Violation("c05.o", f"reader-differs:compressible-runs:{ctor}", f"{ctor} on zero runs of {sizes} under {codec}: {short(got, 120)}", info))
                    break


class ForwardOnly:
    """A stream that can only be read forward (a pipe, a socket): read() and nothing else."""

    def __init__(self, data):
        self._fo = io.BytesIO(data)

    def read(self, n=-1):
        return self._fo.read(n)


def part_h(res, fa, codec, seen):
    """Files written through the Writer class while some records are refused (non-conforming
    records raise part-way or are rejected by validation): the independent parser must find
    exactly the accepted records, and every block's payload must be exactly its counted records."""
    from fastavro._write_py import Writer

    S2 = {"type": "record", "name": "Rw", "fields": [{"name": "a", "type": "long"}, {"name": "b", "type": "string"}, {"name": "c", "type": ["null", "int"], "default": None}]}
    node, defs = names.resolve(S2)
    good = [{"a": 1, "b": "x", "c": 5}, {"a": -70, "b": "yy" * 40}, {"a": 8192, "b": ""}]
    bads = [{"a": 1, "b": 5}, {"a": 1, "b": "ok", "c": "no"}, {"a": "no", "b": "x"}]
    exp = cont.expected(node, defs, good)
    marker = cont.sync_marker()
    for iv in (1, 30, 16000):
        for validator in (False, True):
            for where in (0, 1, 2, 3):
                info = {"part": "h", "schema": S2, "records": good, "codec": codec, "sync_interval": iv, "validator": validator, "refused_before": where}
                note_case(info)
                res.evals += 1
                fo = io.BytesIO()
                w = Writer(fo, copy.deepcopy(S2), codec=codec, sync_interval=iv, sync_marker=marker, validator=validator)
                for i, g in enumerate(good + [None]):
                    if i == where:
                        for b in bads:
                            try:
                                w.write(copy.deepcopy(b))
                            except Exception:
                                pass
                    if g is not None:
                        w.write(copy.deepcopy(g))
                w.flush()
                data = fo.getvalue()
                seen.add(data)
                try:
                    p = container.parse(data)
                    got, _ = container.records(p)
                except Exception as e:
                    res.add(Violation("c05.h", f"independent-parse-failed:{type(e).__name__}", f"independent parser rejects a file written around refused records: {e} | {short(info, 400)}", info))
                    continue
                if len(got) != len(exp) or not all(same(a, b) for a, b in zip(got, exp)):
                    res.add(Violation("c05.h", "independent-records-differ", f"independent parser recovers {short(got, 200)} expected {short(exp, 200)} | {short(info, 400)}", info))
                tiling(res, fa, data, info, len(exp), p["hdr_end"], exp)


def part_g(res, fa, si, codec, tier, seen):
    """Files assembled by copying whole blocks from a donor file (write_block), with the
    donor's blocks either untouched or iterated first, re-compressed under this file's codec."""
    from fastavro._write_py import Writer

    name, raw = cont.top_schemas()[si]
    lists, node, defs = cont.record_lists(raw)
    marker = cont.sync_marker()
    for lname, recs in lists:
        if not recs:
            continue
        exp = cont.expected(node, defs, recs)
        for donor_codec in cont.CODECS:
            for iterate in (False, True):
                info = {"part": "g", "schema": raw, "records": recs, "codec": codec, "donor_codec": donor_codec, "iterated_first": iterate}
                note_case(info)
                res.evals += 1
                try:
                    dfo = io.BytesIO()
                    fa.writer(dfo, copy.deepcopy(raw), copy.deepcopy(recs), codec=donor_codec, sync_interval=1, sync_marker=b"d" * 16)
                    out = io.BytesIO()
                    w = Writer(out, copy.deepcopy(raw), codec=codec, sync_marker=marker)
                    w.write(copy.deepcopy(recs[0]))
                    for blk in fa.block_reader(io.BytesIO(dfo.getvalue())):
                        if iterate:
                            list(blk)
                        w.write_block(blk)
                    w.flush()
                except Exception as e:
                    res.add(Violation("c05.g", f"block-copy-raised:{type(e).__name__}", f"{type(e).__name__}: {e} | {short(info, 400)}", info))
                    continue
                data = out.getvalue()
                seen.add(data)
                want = exp[:1] + exp
                try:
                    p = container.parse(data)
                    got, _ = container.records(p)
                except Exception as e:
                    res.add(Violation("c05.g", f"independent-parse-failed:{type(e).__name__}", f"independent parser rejects the file assembled by write_block: {e} | {short(info, 400)}", info))
                    continue
                if len(got) != len(want) or not all(same(a, b) for a, b in zip(got, want)):
                    res.add(Violation("c05.g", "independent-records-differ", f"independent parser recovers {short(got, 200)} expected {short(want, 200)} | {short(info, 400)}", info))
                tiling(res, fa, data, info, len(want), p["hdr_end"], want)


def block_partitions(n):
    """every composition of n records into blocks, with up to two empty blocks inserted anywhere."""
    comps = []

    def rec(rest, acc):
        if rest == 0:
            comps.append(list(acc))
            return
        for c in range(1, rest + 1):
            acc.append(c)
            rec(rest - c, acc)
            acc.pop()

    rec(n, [])
    out = []
    for comp in comps:
        out.append(comp)
        k = len(comp)
        for i in range(k + 1):
            out.append(comp[:i] + [0] + comp[i:])
        for i in range(k + 1):
            for j in range(i, k + 1):
                c2 = comp[:i] + [0] + comp[i:j] + [0] + comp[j:]
                out.append(c2)
    uniq = []
    for c in out:
        if c not in uniq:
            uniq.append(c)
    return uniq


def part_b(res, fa, si, codec, tier, seen):
    name, raw = cont.top_schemas()[si]
    lists, node, defs = cont.record_lists(raw)
    marker = cont.sync_marker()
    schema_json = json.dumps(raw).encode()
    rec_sets = []
    for lname, recs in lists:
        if len(recs) <= 4 and (lname, recs) not in rec_sets:
            rec_sets.append((lname, recs))
    for lname, recs in rec_sets:
        exp = cont.expected(node, defs, recs)
        enc = []
        for r in recs:
            v, idx = conform.plan(node, defs, r)
            enc.append(binary.encode(node, defs, v, conform.Indices(idx)))
        entry_sets = [[("avro.schema", schema_json), ("avro.codec", codec.encode())],
                      [("avro.codec", codec.encode()), ("user.k", "v€".encode()), ("avro.schema", schema_json)]]
        if codec == "null":
            entry_sets.append([("avro.schema", schema_json)])
            entry_sets.append([("a", b""), ("avro.schema", schema_json)])
        # the same codec as other conforming writers produce it (compression level, strategy, dictionary size, integrity check)
        for vname, fn in container.compress_variants(codec).items():
            if fn is None:
                continue
            data = container.write(entry_sets[0], [(len(entry_sets[0]), False)], marker, codec, [(len(recs), b"".join(enc))] if recs else [], compressor=fn)
            if data in seen:
                continue
            seen.add(data)
            info = {"part": "b", "schema": raw, "records": recs, "codec": codec, "compressor": vname, "blocks": [len(recs)]}
            note_case(info)
            res.evals += 1
            for ctor in ("reader", "block_reader"):
                try:
                    got = list(fa.reader(io.BytesIO(data))) if ctor == "reader" else [r for b in fa.block_reader(io.BytesIO(data)) for r in b]
                except Exception as e:
                    res.add(Violation("c05.b.reader", f"reader-raised:{type(e).__name__}:compressor-variant", f"{ctor} raised {type(e).__name__}: {e} on a {codec} file compressed as {vname} | {short(info, 400)}", info))
                    continue
                if len(got) != len(exp) or not all(same(a, b) for a, b in zip(got, exp)):
                    res.add(Violation("c05.b.reader", "reader-records-differ:compressor-variant", f"{ctor} returns {short(got, 200)} expected {short(exp, 200)} | {short(info, 400)}", info))
        for entries in entry_sets:
            for chunks in binary.all_layouts(len(entries)):
                for part in block_partitions(len(recs)):
                    blocks = []
                    p = 0
                    for c in part:
                        blocks.append((c, b"".join(enc[p:p + c])))
                        p += c
                    data = container.write(entries, chunks, marker, codec, blocks)
                    if data in seen:
                        continue
                    seen.add(data)
                    info = {"part": "b", "schema": raw, "records": recs, "codec": codec, "entries": [k for k, _ in entries],
                            "chunks": chunks, "blocks": part}
                    note_case(info)
                    res.evals += 1
                    try:
                        r = fa.reader(io.BytesIO(data))
                        got = list(r)
                    except Exception as e:
                        res.add(Violation("c05.b.reader", f"reader-raised:{type(e).__name__}", f"reader raised {type(e).__name__}: {e} on a layout-valid file | {short(info, 500)}", info))
                        continue
                    # the same file delivered through a forward-only stream (a pipe): reader() needs nothing but read()
                    try:
                        got_f = list(fa.reader(ForwardOnly(data)))
                    except Exception as e:
                        got_f = f"{type(e).__name__}: {e}"
                    if got_f != got:
                        res.add(Violation("c05.b.reader", "reader-forward-only-differs", f"through a forward-only stream reader gives {short(got_f, 200)}, through BytesIO {short(got, 200)} | {short(info, 400)}", info))
                    if len(got) != len(exp) or not all(same(a, b) for a, b in zip(got, exp)):
                        res.add(Violation("c05.b.reader", "reader-records-differ", f"reader returns {short(got, 200)} expected {short(exp, 200)} | {short(info, 500)}", info))
                    if r.codec != codec:
                        res.add(Violation("c05.b.reader", "codec-default", f"reader.codec {r.codec!r}, file codec {codec!r} | {short(info, 300)}", info))
                    tiling(res, fa, data, info, len(exp), container.header_end(data), exp)


def part_c(res, fa, fname, seen):
    path = os.path.join(REPO, "tests", "avro-files", fname)
    data = open(path, "rb").read()
    info = {"part": "c", "file": fname}
    note_case(info)
    try:
        p = container.parse(data)
        exp, _ = container.records(p)
    except container.ContainerError as e:
        if "not available" in str(e):
            res.stats["fixtures_skipped_codec"] += 1
            res.evals += 1
            is_avro_check(res, fa, data, info)
            seen.add(data)
            return
        raise
    seen.add(data)
    res.evals += 1
    if "logicalType" in json.dumps(p["schema"]):
        from ..ref import logical

        node, defs = names.resolve(p["schema"])
        exp = [logical.from_underlying_deep(node, defs, v) for v in exp]
    try:
        got = list(fa.reader(io.BytesIO(data)))
    except Exception as e:
        res.add(Violation("c05.c", f"fixture-reader-raised:{type(e).__name__}", f"{fname}: reader raised {type(e).__name__}: {e}", info))
        return
    if len(got) != len(exp) or not all(same(a, b) for a, b in zip(got, exp)):
        bad = next((i for i, (a, b) in enumerate(zip(got, exp)) if not same(a, b)), None)
        res.add(Violation("c05.c", "fixture-records-differ", f"{fname}: record {bad}: fastavro {short(got[bad] if bad is not None else len(got), 200)} independent {short(exp[bad] if bad is not None else len(exp), 200)}", info))
    tiling(res, fa, data, info, len(exp), p["hdr_end"])
    is_avro_check(res, fa, data, info)
    res.stats["fixture_records"] += len(exp)


def part_d(res, fa, first, seen, tmpdir):
    alpha = [b"O", b"b", b"j", b"\x01", b"\x00", b"X"]
    if first == 0:
        is_avro_check(res, fa, b"", {"part": "d"}, tmpdir)
        seen.add(b"")
        # paths that are not regular files: a named pipe, a symbolic link, the /dev/fd view of an open pipe
        import threading

        for content in (b"Obj\x01rest-of-the-file", b"Obj\x02", b"Ob"):
            want = content[:4] == b"Obj\x01"
            for kind in ("fifo", "symlink", "dev-fd"):
                res.evals += 1
                info = {"part": "d", "path_kind": kind, "data": content}
                try:
                    if kind == "fifo":
                        p = os.path.join(tmpdir, "pipe.avro")
                        if os.path.exists(p):
                            os.remove(p)
                        os.mkfifo(p)
                        t = threading.Thread(target=lambda: open(p, "wb").write(content), daemon=True)
                        t.start()
                        try:
                            got = fa.is_avro(p)
                        finally:
                            if t.is_alive():
                                # nobody opened the pipe for reading: release the writer so that it does not linger
                                try:
                                    fd = os.open(p, os.O_RDONLY | os.O_NONBLOCK)
                                    t.join(2)
                                    os.close(fd)
                                except OSError:
                                    pass
                        t.join(5)
                    elif kind == "symlink":
                        real = os.path.join(tmpdir, "real.bin")
                        with open(real, "wb") as f:
                            f.write(content)
                        p = os.path.join(tmpdir, "link.avro")
                        if os.path.lexists(p):
                            os.remove(p)
                        os.symlink(real, p)
                        got = fa.is_avro(p)
                    else:
                        rfd, wfd = os.pipe()
                        os.write(wfd, content)
                        os.close(wfd)
                        try:
                            got = fa.is_avro("/dev/fd/%d" % rfd)
                        finally:
                            os.close(rfd)
                except Exception as e:
                    got = f"raised {type(e).__name__}: {e}"
                if got is not want:
                    res.add(Violation("c05.is_avro", f"is-avro-path:{kind}", f"is_avro({kind} holding {content[:8]!r}) = {got!r}, expected {want}", info))
    for n in range(1, 7):
        for tail in itertools.product(alpha, repeat=n - 1):
            data = alpha[first] + b"".join(tail)
            seen.add(data)
            usepath = n <= 4 or (data[:3] == b"Obj" and n <= 5)
            is_avro_check(res, fa, data, {"part": "d"}, tmpdir if usepath else None)


def run_unit(unit, tier):
    import fastavro as fa

    res = UnitResult()
    seen = set()
    if unit[0] == "a":
        part_a(res, fa, unit[1], unit[2], tier, seen)
    elif unit[0] == "b":
        part_b(res, fa, unit[1], unit[2], tier, seen)
    elif unit[0] == "f":
        part_f(res, fa, unit[1], unit[2], tier, seen)
    elif unit[0] == "g":
        part_g(res, fa, unit[1], unit[2], tier, seen)
    elif unit[0] == "h":
        part_h(res, fa, unit[1], seen)
    elif unit[0] == "i":
        part_i(res, fa, unit[1], seen)
    elif unit[0] == "k":
        part_k(res, fa, unit[1], seen)
        part_m(res, fa, unit[1], seen)
        part_n(res, fa, unit[1], seen)
        part_o(res, fa, unit[1], seen)
    elif unit[0] == "c":
        part_c(res, fa, unit[1], seen)
    elif unit[0] == "d":
        with tempfile.TemporaryDirectory(prefix="verif-c05-") as tmpdir:
            part_d(res, fa, unit[1], seen, tmpdir)
    res.distinct = len(seen)
    res.stats["files_part_" + unit[0]] += len(seen)
    if seen:
        res.sample({"unit": list(map(str, unit)), "files": len(seen), "first_bytes": sorted(seen, key=len)[-1][:24].hex()})
    return res


def replay(case):
    import fastavro as fa

    res = UnitResult()
    part = case.get("part")
    if part == "d" or "data" in case:
        is_avro_check(res, fa, case["data"], case)
    elif part == "c":
        part_c(res, fa, case["file"], set())
    elif part == "h":
        part_h(res, fa, case["codec"], set())
        return res.violations
    elif part == "i":
        part_i(res, fa, case["codec"], set())
        return res.violations
    elif part == "k":
        part_k(res, fa, case["codec"].strip().lower(), set())
        return res.violations
    elif part == "m":
        part_m(res, fa, case["codec"], set())
        return res.violations
    elif part == "n":
        part_n(res, fa, case["codec"], set())
        return res.violations
    elif part == "o":
        part_o(res, fa, case["codec"], set())
        return res.violations
    elif part == "g":
        si = [i for i, (n, r) in enumerate(cont.top_schemas()) if r == case["schema"]][0]
        part_g(res, fa, si, case["codec"], "quick", set())
        return res.violations
    elif part == "f":
        si = [i for i, (n, r) in enumerate(cont.top_schemas()) if r == case["schema"]][0]
        part_f(res, fa, si, case["codec"], "quick", set())
        keep = [v for v in res.violations if v["case"].get("append") == case.get("append") and v["case"].get("records") == case.get("records")]
        return keep or res.violations
    elif part in ("a", "b"):
        # re-run the whole (schema, codec) unit and keep what matches the recorded configuration
        si = [i for i, (n, r) in enumerate(cont.top_schemas()) if r == case["schema"]][0]
        (part_a if part == "a" else part_b)(res, fa, si, case["codec"], "quick", set())
        keep = [v for v in res.violations if all(v["case"].get(k) == case.get(k) for k in ("records", "sync_interval", "chunks", "blocks", "entries"))]
        return keep or res.violations
    return res.violations
