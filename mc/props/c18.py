"""C18 — concurrent operations on distinct streams behave as if run sequentially
(systematic schedule exploration of real threads, preemption-bounded)."""
import copy
import decimal
import io
import os
import itertools

from ..harness import UnitResult, Violation, short, note_case
from .. import sched
from ..values import key

LEVEL = "model_checking"
RULE = (
    "2 real threads (thorough: also 3), one operation each on its own stream, sharing parsed schema objects; a "
    "sys.settrace baton scheduler makes every source line executed inside /repo/fastavro a scheduling point (thorough: "
    "every bytecode in the files owning shared state) and ALL schedules with at most b preemptions are executed "
    "(iterative preemption bounding, depth-first over schedule prefixes, executions run to completion). Operations: "
    "decimal read precision 3 / precision 12, fixed-decimal write, JSON read with absent defaulted keys, JSON write, "
    "parse_schema of a shared raw dict, parse_schema of a parsed dict into a local table, validate, schemaless write with "
    "multi-byte varints, container write, container read, schemaless read with a reader schema (nested records), "
    "schemaless read, container/schemaless reads of two files whose schemas define the same type names differently; all unordered "
    "pairs incl. self-pairs (quick: the twin-file reads, JSON on a recursive record, reads of few/many distinct strings and "
    "fingerprints only in selected pairs). Cold-start units: every execution begins with a freshly imported library and the "
    "single preemption is placed at the 1st, 2nd and last visit of every source line (first-call initialisation races). The same "
    "location-bounded placement replaces 'every point' for pairs longer than 1600 (thorough: 6000) scheduling points. Oracle: each thread's bytes/value/exception equal its solo "
    "result. states = distinct (pair, schedule) executions; transitions = scheduling points executed."
    ' Operations sl_read_deep (40-node list), bytesdec_write and bytesdec_write_small (different powers of ten), the latter two also as a cold-start pair.'
)
ASSUMPTIONS = [
    "scheduling points are line events in fastavro frames (quick); code outside /repo/fastavro (C extensions such as _decimal/struct/zlib, and pure-Python stdlib) is treated as atomic",
    "line/opcode granularity is finer than CPython's own switch points, so the explored interleavings are a superset for these operations, up to the preemption bound",
    "pure-Python fastavro only (Cython absent)",
]
UNIT_TIMEOUT_S = 3000

DEC3 = {"type": "bytes", "logicalType": "decimal", "precision": 3, "scale": 1}
DEC12 = {"type": "bytes", "logicalType": "decimal", "precision": 12, "scale": 0}
FIXDEC = {"type": "fixed", "name": "FD", "size": 8, "logicalType": "decimal", "precision": 12, "scale": 2}
REC = {"type": "record", "name": "Rec", "namespace": "c18", "fields": [
    {"name": "id", "type": "long"}, {"name": "s", "type": "string"}, {"name": "d", "type": "double", "default": 0.5}, {"name": "f", "type": "float", "default": 1.5},
    {"name": "tags", "type": {"type": "array", "items": "string"}, "default": ["x", "y"]},
    {"name": "m", "type": {"type": "map", "values": "int"}, "default": {"k": 1}},
    {"name": "inner", "type": {"type": "record", "name": "Inner", "fields": [{"name": "v", "type": "int", "default": 7}]}, "default": {"v": 9}},
    {"name": "u", "type": ["null", "Inner", "string"], "default": None}]}
REC_READER = {"type": "record", "name": "Rec", "namespace": "c18", "fields": [
    {"name": "s", "type": "string"}, {"name": "id", "type": "double"},
    {"name": "inner", "type": {"type": "record", "name": "Inner", "fields": [{"name": "v", "type": "long"}, {"name": "w", "type": "string", "default": "dw"}]}},
    {"name": "extra", "type": "int", "default": 5}]}
SMALL = {"type": "record", "name": "Small", "namespace": "c18", "fields": [
    {"name": "id", "type": "long"}, {"name": "tags", "type": {"type": "array", "items": "string"}, "default": ["x", "y"]},
    {"name": "u", "type": ["null", {"type": "map", "values": "int"}], "default": None}]}
SDATUM = {"id": 8192, "tags": ["t" * 70], "u": {"k": 64}}
DATUM = {"id": 123456, "d": 3e100, "f": -2.25, "s": "hello" * 20, "tags": ["a" * 70], "m": {"k" * 70: 300}, "inner": {"v": 8192}, "u": {"v": -70}}
DATUM2 = {"id": -99, "d": 123456.789, "f": 7.0, "s": "z", "tags": [], "m": {}, "inner": {"v": 1}, "u": "str"}


TWIN_A = {"type": "record", "name": "Order", "namespace": "tw", "fields": [
    {"name": "item", "type": {"type": "record", "name": "Item", "fields": [{"name": "qty", "type": "int"}, {"name": "code", "type": "string"}]}},
    {"name": "more", "type": {"type": "array", "items": "Item"}}]}
TWIN_B = {"type": "record", "name": "Order", "namespace": "tw", "fields": [
    {"name": "item", "type": {"type": "record", "name": "Item", "fields": [{"name": "code", "type": "string"}, {"name": "qty", "type": "int"}]}},
    {"name": "more", "type": {"type": "array", "items": "Item"}}]}
TW_DATUM = {"item": {"qty": 3, "code": "abc"}, "more": [{"qty": 70, "code": "x" * 5}, {"qty": -1, "code": ""}]}


def make_ctx(fa):
    """Shared objects for one execution (fresh each time so executions are independent)."""
    c = {}
    c["rec"] = fa.parse_schema(copy.deepcopy(REC))
    c["rec_reader"] = fa.parse_schema(copy.deepcopy(REC_READER))
    c["raw"] = copy.deepcopy(REC)
    c["small"] = fa.parse_schema(copy.deepcopy(SMALL))
    c["node"] = fa.parse_schema(copy.deepcopy(NODE))
    # a schema marked as parsed by an old release: the marker without the embedded name table
    c["legacy"] = {"type": "record", "name": "demo.Legacy", "__fastavro_parsed": True, "fields": [
        {"name": "k", "type": {"type": "enum", "name": "demo.Kind", "symbols": ["A", "B"]}}, {"name": "again", "type": "demo.Kind"}, {"name": "n", "type": "long"}]}
    c["dec3"] = fa.parse_schema(copy.deepcopy(DEC3))
    c["dec12"] = fa.parse_schema(copy.deepcopy(DEC12))
    c["fixdec"] = fa.parse_schema(copy.deepcopy(FIXDEC))
    c["bdec"] = fa.parse_schema({"type": "bytes", "logicalType": "decimal", "precision": 12, "scale": 4})
    c["ts_naive"] = fa.parse_schema(copy.deepcopy(TS_NAIVE))
    # every execution starts after a write that failed part-way (whatever such a failure leaves behind is shared state)
    for bad in ({"id": 1, "s": 5}, {"id": "x"}):
        try:
            fa.schemaless_writer(io.BytesIO(), c["rec"], bad)
        except Exception:
            pass
    return c


def _sl_bytes(fa, schema, d):
    fo = io.BytesIO()
    fa.schemaless_writer(fo, schema, d)
    return fo.getvalue()


_CONST = {}


def const(fa):
    if not _CONST:
        _CONST["dec3"] = _sl_bytes(fa, DEC3, decimal.Decimal("12.3"))
        _CONST["dec12"] = _sl_bytes(fa, DEC12, decimal.Decimal("123456789012"))
        _CONST["rec"] = _sl_bytes(fa, REC, DATUM)
        _CONST["rec2"] = _sl_bytes(fa, REC, DATUM2)
        fo = io.BytesIO()
        fa.writer(fo, SMALL, [SDATUM], sync_marker=b"S" * 16)
        _CONST["file"] = fo.getvalue()
        deep = None
        for i in range(40):
            deep = {"value": i, "next": deep}
        _CONST["deep"] = _sl_bytes(fa, NODE, deep)
        _CONST["few"] = _sl_bytes(fa, {"type": "array", "items": "string"}, ["alpha", "beta", "alpha"])
        _CONST["many"] = _sl_bytes(fa, {"type": "array", "items": "string"}, ["s%03d" % i for i in range(262)])
        for nm, sch in (("twin_a", TWIN_A), ("twin_b", TWIN_B)):
            fo = io.BytesIO()
            fa.writer(fo, sch, [TW_DATUM], sync_marker=b"T" * 16)
            _CONST[nm] = fo.getvalue()
            _CONST[nm + "_sl"] = _sl_bytes(fa, sch, TW_DATUM)
    return _CONST


def op_dec3_read(fa, c, k):
    return fa.schemaless_reader(io.BytesIO(k["dec3"]), c["dec3"])


def op_dec12_read(fa, c, k):
    return fa.schemaless_reader(io.BytesIO(k["dec12"]), c["dec12"])


def op_fixdec_write(fa, c, k):
    fo = io.BytesIO()
    fa.schemaless_writer(fo, c["fixdec"], decimal.Decimal("-1234567.89"))
    return fo.getvalue()


def op_json_read_defaults(fa, c, k):
    return list(fa.json_reader(io.StringIO('{"id": 1}'), c["small"]))


def op_json_write(fa, c, k):
    fo = io.StringIO()
    fa.json_writer(fo, c["small"], [SDATUM])
    return fo.getvalue()


def op_parse_raw(fa, c, k):
    p = fa.parse_schema(c["raw"])
    return fa.schema.to_parsing_canonical_form(p)


def op_parse_parsed(fa, c, k):
    table = {}
    p = fa.parse_schema(c["rec"], table)
    return (sorted(table), fa.schema.to_parsing_canonical_form(p))


def op_validate(fa, c, k):
    return (fa.validate(DATUM, c["rec"], raise_errors=False), fa.validate({"id": "no", "s": 1}, c["rec"], raise_errors=False))


def op_sl_write(fa, c, k):
    fo = io.BytesIO()
    fa.schemaless_writer(fo, c["rec"], DATUM)
    return fo.getvalue()


def op_sl_write2(fa, c, k):
    fo = io.BytesIO()
    fa.schemaless_writer(fo, c["rec"], DATUM2)
    return fo.getvalue()


def op_cont_write(fa, c, k):
    fo = io.BytesIO()
    fa.writer(fo, c["small"], [SDATUM, {"id": 3}], codec="deflate", sync_marker=b"M" * 16, sync_interval=1)
    return fo.getvalue()


def op_cont_read(fa, c, k):
    return list(fa.reader(io.BytesIO(k["file"])))


def op_twin_a_read(fa, c, k):
    return list(fa.reader(io.BytesIO(k["twin_a"])))


def op_twin_b_read(fa, c, k):
    return list(fa.reader(io.BytesIO(k["twin_b"])))


def op_twin_a_sl_read(fa, c, k):
    return fa.schemaless_reader(io.BytesIO(k["twin_a_sl"]), copy.deepcopy(TWIN_A))


def op_twin_b_sl_read(fa, c, k):
    return fa.schemaless_reader(io.BytesIO(k["twin_b_sl"]), copy.deepcopy(TWIN_B))


NODE = {"type": "record", "name": "Node", "namespace": "c18", "fields": [{"name": "value", "type": "int"}, {"name": "next", "type": ["null", "Node"], "default": None}]}
CHAIN = {"value": 1, "next": {"value": 2, "next": None}}


def op_json_write_node(fa, c, k):
    fo = io.StringIO()
    fa.json_writer(fo, c["node"], [CHAIN, {"value": 3, "next": None}])
    return fo.getvalue()


def op_json_read_node(fa, c, k):
    return list(fa.json_reader(io.StringIO('{"value": 1, "next": {"c18.Node": {"value": 2, "next": null}}}'), c["node"]))


def op_few_strings(fa, c, k):
    return [fa.schemaless_reader(io.BytesIO(k["few"]), {"type": "array", "items": "string"}) for _ in range(3)]


def op_many_strings(fa, c, k):
    return fa.schemaless_reader(io.BytesIO(k["many"]), {"type": "array", "items": "string"})


def op_cont_write_null(fa, c, k):
    fo = io.BytesIO()
    fa.writer(fo, c["rec"], [DATUM2], codec="null", sync_marker=b"N" * 16)
    return fo.getvalue()


def op_cont_write_bz(fa, c, k):
    fo = io.BytesIO()
    fa.writer(fo, c["small"], [SDATUM], codec="bzip2", sync_marker=b"Z" * 16)
    return fo.getvalue()


def op_legacy_write(fa, c, k):
    fo = io.BytesIO()
    fa.schemaless_writer(fo, c["legacy"], {"k": "B", "again": "A", "n": 64})
    return fo.getvalue()


def op_legacy_validate(fa, c, k):
    return fa.validate({"k": "A", "again": "B", "n": 1}, c["legacy"], raise_errors=False)


def op_fingerprint(fa, c, k):
    return [fa.schema.fingerprint(t, "CRC-64-AVRO") for t in ('"int"', "é")] + [fa.schema.fingerprint('"int"', "MD5")]


def op_sl_read_resolve(fa, c, k):
    return fa.schemaless_reader(io.BytesIO(k["rec"]), c["rec"], c["rec_reader"])


def op_sl_read(fa, c, k):
    return fa.schemaless_reader(io.BytesIO(k["rec2"]), c["rec"])


def op_sl_read_deep(fa, c, k):
    # a 40-node linked list: about 120 nested read calls, far below any sensible nesting limit of one read
    return fa.schemaless_reader(io.BytesIO(k["deep"]), c["node"])


def op_bytesdec_write(fa, c, k):
    out = []
    for v in ("5", "7E+2", "0.1", "123"):  # values that must be scaled up by different powers of ten
        fo = io.BytesIO()
        fa.schemaless_writer(fo, c["bdec"], decimal.Decimal(v))
        out.append(fo.getvalue())
    return out


def op_bytesdec_write_small(fa, c, k):
    out = []
    for v in ("0.5", "0.25", "1.5"):  # scaled up by smaller powers of ten than op_bytesdec_write needs
        fo = io.BytesIO()
        fa.schemaless_writer(fo, c["bdec"], decimal.Decimal(v))
        out.append(fo.getvalue())
    return out


def op_cont_write_default_marker(fa, c, k):
    # no sync_marker argument: the writer picks its own; the result is reported without it
    fo = io.BytesIO()
    fa.writer(fo, c["small"], [SDATUM, SDATUM])
    data = fo.getvalue()
    return (len(data), list(fa.reader(io.BytesIO(data))))


TS_NAIVE = {"type": "long", "logicalType": "timestamp-micros"}


def op_ts_naive_winter(fa, c, k):
    import datetime

    out = []
    for d in (datetime.datetime(2023, 1, 15, 12, 0, 0, 5), datetime.datetime(2023, 1, 15, 12, 30), datetime.datetime(2022, 12, 1, 12, 1)):
        fo = io.BytesIO()
        fa.schemaless_writer(fo, c["ts_naive"], d)
        out.append(fo.getvalue())
    return out


def op_ts_naive_summer(fa, c, k):
    import datetime

    out = []
    for d in (datetime.datetime(2023, 7, 15, 12, 0, 0, 5), datetime.datetime(2023, 7, 15, 12, 45), datetime.datetime(2023, 6, 1, 12, 2)):
        fo = io.BytesIO()
        fa.schemaless_writer(fo, c["ts_naive"], d)
        out.append(fo.getvalue())
    return out


_REPO_DIR = []


def _repo_dir():
    """Per-process directory with a parent schema file that refers twice to a type kept in its own file."""
    if not _REPO_DIR:
        import atexit
        import json
        import shutil
        import tempfile

        d = tempfile.mkdtemp(prefix="verif-c18-")
        atexit.register(shutil.rmtree, d, True)
        files = {"c18r.Parent": {"type": "record", "name": "Parent", "namespace": "c18r", "fields": [{"name": "a", "type": "Child"}, {"name": "b", "type": ["null", "c18r.Child"]}, {"name": "k", "type": "Kind"}]},
                 "c18r.Child": {"type": "record", "name": "Child", "namespace": "c18r", "fields": [{"name": "x", "type": "int"}, {"name": "k", "type": "Kind"}]},
                 "c18r.Kind": {"type": "enum", "name": "Kind", "namespace": "c18r", "symbols": ["A", "B"]}}
        for n, sch in files.items():
            with open(os.path.join(d, n + ".avsc"), "w") as f:
                json.dump(sch, f)
        _REPO_DIR.append(d)
    return _REPO_DIR[0]


def op_load_schema_parent(fa, c, k):
    from fastavro.schema import load_schema, to_parsing_canonical_form

    return to_parsing_canonical_form(load_schema(os.path.join(_repo_dir(), "c18r.Parent.avsc")))


KNOWN_READER_KW = {"fo", "writer_schema", "reader_schema", "return_record_name", "return_record_name_override", "handle_unicode_errors", "return_named_type", "return_named_type_override"}


def op_sl_read_other_kwargs(fa, c, k):
    """A plain read that passes every keyword of schemaless_reader this driver does not know about (None / boolean
    defaults) with the opposite truth value: whatever such an option does, it concerns this call only."""
    import inspect

    extra = {}
    for name, prm in inspect.signature(fa.schemaless_reader).parameters.items():
        if name not in KNOWN_READER_KW and prm.kind in (prm.KEYWORD_ONLY, prm.POSITIONAL_OR_KEYWORD) and (prm.default is None or isinstance(prm.default, bool)):
            extra[name] = not prm.default
    out = [sorted(extra), fa.schemaless_reader(io.BytesIO(k["rec2"]), c["rec"], **extra)]
    if any(v is True and True for v in extra.values()):
        # options whose default is None: the other truth value as well
        flipped = {n: (False if inspect.signature(fa.schemaless_reader).parameters[n].default is None else v) for n, v in extra.items()}
        out.append(fa.schemaless_reader(io.BytesIO(k["rec2"]), c["rec"], **flipped))
    return out


OPS = [
    ("dec3_read", op_dec3_read), ("dec12_read", op_dec12_read), ("fixdec_write", op_fixdec_write),
    ("json_read_defaults", op_json_read_defaults), ("json_write", op_json_write), ("parse_raw", op_parse_raw),
    ("parse_parsed", op_parse_parsed), ("validate", op_validate), ("sl_write", op_sl_write), ("sl_write2", op_sl_write2),
    ("cont_write", op_cont_write), ("cont_read", op_cont_read), ("sl_read_resolve", op_sl_read_resolve), ("sl_read", op_sl_read),
    ("twin_a_read", op_twin_a_read), ("twin_b_read", op_twin_b_read), ("twin_a_sl_read", op_twin_a_sl_read), ("twin_b_sl_read", op_twin_b_sl_read),
    ("json_write_node", op_json_write_node), ("json_read_node", op_json_read_node), ("few_strings", op_few_strings), ("many_strings", op_many_strings),
    ("fingerprint", op_fingerprint),
    ("cont_write_null", op_cont_write_null), ("cont_write_bz", op_cont_write_bz), ("legacy_write", op_legacy_write), ("legacy_validate", op_legacy_validate),
    ("sl_read_deep", op_sl_read_deep), ("bytesdec_write", op_bytesdec_write), ("bytesdec_write_small", op_bytesdec_write_small),
    ("cont_write_default_marker", op_cont_write_default_marker), ("ts_naive_winter", op_ts_naive_winter), ("ts_naive_summer", op_ts_naive_summer),
    ("load_schema_parent", op_load_schema_parent), ("sl_read_other_kwargs", op_sl_read_other_kwargs),
]
CHUNKS = 16
OPCODE_FILES = ("_logical_readers_py.py", "_logical_writers_py.py", "json_decoder.py", "parser.py", "binary_encoder.py")


def units(tier):
    idx = range(len(OPS))
    special = set(range(14, 35))
    us = [("pair", a, b) for a, b in itertools.combinations_with_replacement(idx, 2)
          if (tier == "thorough" and not ({a, b} & {21, 22})) or not ({a, b} & special)
          or (a, b) in ((14, 15), (16, 17), (14, 17), (18, 18), (18, 19), (19, 19), (20, 21), (20, 20), (22, 22), (5, 22),
                        (10, 23), (23, 24), (10, 24), (25, 25), (25, 26), (26, 26), (8, 25), (27, 27), (13, 27), (28, 28), (2, 28), (28, 29), (30, 30), (10, 30), (31, 32), (31, 31), (33, 33), (0, 34), (1, 34), (34, 34))]
    us = [(u, c) for u in us for c in range(CHUNKS)]
    # cold start: every execution begins with a freshly imported library (first-call initialisation races);
    # deviations at the 1st, 2nd and last visit of every source line of the default execution
    cold = [(22, 22), (8, 8), (28, 29), (33, 33)] if tier == "quick" else [(22, 22), (5, 5), (8, 8), (4, 4), (3, 3), (0, 1), (18, 18), (10, 11), (12, 12), (7, 7), (2, 2), (28, 28), (28, 29), (2, 28), (27, 27), (33, 33), (5, 33)]
    us += [(("cold", a, b), 0) for a, b in cold]
    if tier == "thorough":
        us += [(u, 0) for u in [("triple", 0, 1, 2), ("triple", 0, 1, 1), ("triple", 8, 9, 10), ("triple", 3, 3, 4), ("triple", 5, 6, 7), ("triple", 12, 12, 13)]]
        us += [(("opcode", a, b), c) for a, b in [(0, 1), (0, 0), (1, 1), (2, 2), (3, 3), (3, 4), (8, 9), (8, 8), (5, 5), (5, 6)] for c in range(CHUNKS)]
    return us


def priority(unit_chunk):
    unit, chunk = unit_chunk
    if unit[0] == "cold":
        return 3
    if unit[0] in ("triple", "opcode"):
        return 2
    big = {3, 4, 10, 11, 14, 15, 18, 19, 20, 21, 22, 23, 24, 27}
    return 1 if (set(unit[1:]) & big) else 0


def solo(fa, opi):
    name, fn = OPS[opi]
    try:
        return ("ok", fn(fa, make_ctx(fa), const(fa)))
    except Exception as e:
        return ("exc", type(e).__name__, str(e)[:300])


DST_OPS = {31, 32}
DST_ZONE = "CET-1CEST,M3.5.0,M10.5.0/3"  # POSIX rule string: central European time, no zone database needed


def run_unit(unit_chunk, tier):
    """Operations on naive timestamps are explored with the process in a zone that has daylight saving time (their
    conversion uses the local zone); the zone is set for the whole unit, solo runs included, and restored afterwards."""
    import time as _time

    unit = unit_chunk[0]
    dst = bool(set(unit[1:]) & DST_OPS)
    if dst:
        os.environ["TZ"] = DST_ZONE
        _time.tzset()
    try:
        return _run_unit(unit_chunk, tier)
    finally:
        if dst:
            os.environ["TZ"] = "UTC"
            _time.tzset()


def _run_unit(unit_chunk, tier):
    import fastavro as fa

    res = UnitResult()
    unit, chunk = unit_chunk
    nchunks = 1 if unit[0] in ("triple", "cold") else CHUNKS
    kind, ids = unit[0], unit[1:]
    k = const(fa)
    solos = [solo(fa, i) for i in ids]
    solo_keys = [key(s) for s in solos]
    gran = "opcode" if kind == "opcode" else "line"
    runner = sched.Runner(len(ids), gran, OPCODE_FILES, record_labels=(kind == "cold"))

    def make_bodies():
        c = make_ctx(fa)
        return [(lambda f=OPS[i][1]: f(fa, c, k)) for i in ids]

    if kind == "cold":
        from .c17 import purge
        from ..harness import setup_fastavro

        def make_bodies():  # noqa: F811
            purge()
            fresh = setup_fastavro()
            import fastavro.schema, fastavro.validation  # noqa

            c = make_ctx(fresh)
            return [(lambda f=OPS[i][1]: f(fresh, c, k)) for i in ids]

    # warm-up: traced solo-ish runs until the step count is stable (CPython installs
    # opcode instrumentation lazily on the first traced run of a code object)
    last = None
    for _ in range(6):
        ex = runner.run(make_bodies(), [])
        if ex.steps == last:
            break
        last = ex.steps
    solo_steps = ex.points_per_thread
    runner.horizon = 10 * max(1, sum(solo_steps)) + 1000
    prod = 1
    for s in solo_steps:
        prod *= max(1, s)
    if kind == "pair":
        bound = 2 if prod <= (15000 if tier == "quick" else 80000) else 1
        if tier == "thorough" and prod <= 15000:
            bound = 3
    elif kind == "cold":
        bound = 1
    elif kind == "triple":
        bound = 1 if prod > 300 ** 3 else 2
    else:
        bound = 1 if prod > 250000 else 2
    outcomes = set()
    names = [OPS[i][0] for i in ids]
    info0 = {"ops": names, "unit": unit, "granularity": gran, "bound": bound, "chunk": chunk}

    def on_ex(ex, prefix):
        res.evals += 1
        res.transitions += ex.steps
        note_case(dict(info0, schedule=ex.choices))
        okey = tuple(key(r) for r in ex.results)
        outcomes.add(okey)
        if ex.error:
            res.add(Violation("c18.harness", "schedule-error", f"{ex.error} | {info0}", dict(info0, schedule=ex.choices)))
        for t, (r, sk) in enumerate(zip(ex.results, solo_keys)):
            if key(r) != sk:
                sw = [i for i, (c, re) in enumerate(zip(ex.choices, ex.running_enabled)) if re and c]
                res.add(Violation("c18.result", f"differs-from-solo:{names[t]}|with:{'+'.join(n for j, n in enumerate(names) if j != t)}",
                                  f"thread {t} ({names[t]}) returned {short(r, 300)}; alone it returns {short(solos[t], 300)}; "
                                  f"preemption points {sw} of {len(ex.choices)} | {info0}", dict(info0, schedule=ex.choices)))

    cap = 60000 if tier == "quick" else 400000
    sparse = kind == "cold" or sum(solo_steps) > (1600 if tier == "quick" else 6000)
    if sparse and kind != "cold":
        # very long operations (loops over hundreds of items): place the preemption at the 1st, 2nd and last
        # visit of every source line instead of at every visit
        runner.record_labels = True
        bound = 1
        info0["bound"] = 1
        info0["sparse"] = True
        res.stats["sparse_units"] += 1
    if sparse:
        if chunk % 4 != 0 and kind != "cold":
            # few schedules: four chunks are enough
            res.states = 0
            res.stats["chunks_folded_into_others"] += 1
            return res
        n, capped = sched.explore(runner, make_bodies, bound, on_ex, max_executions=cap, chunk=(chunk // 4, max(1, nchunks // 4)) if kind != "cold" else (0, 1),
                                  eligible=lambda r: sched.visits_first_second_last(r.labels))
        if kind == "cold":
            res.stats["cold_start_units"] += 1
    else:
        n, capped = sched.explore(runner, make_bodies, bound, on_ex, max_executions=cap, chunk=(chunk, nchunks))
    if capped:
        res.caps.append(f"{names}: stopped at {cap} executions within preemption bound {bound}")
    res.states = n
    res.distinct = n
    res.stats["traces_validated"] += n
    res.stats[f"units_bound_{bound}"] += 1
    res.sets["steps_per_execution"].add(sum(solo_steps))
    res.sets["outcomes"] |= {(unit, o) for o in outcomes}
    res.sets["op_groups"].add(unit)
    res.stats["units_with_more_than_one_outcome"] += 1 if len(outcomes) > 1 else 0
    res.sample({"ops": names, "granularity": gran, "preemption_bound": bound, "schedules": n, "solo_points": solo_steps,
                "distinct_outcomes": len(outcomes)})
    return res


def replay(case):
    import fastavro as fa

    res = UnitResult()
    unit = tuple(case["unit"])
    ids = unit[1:]
    k = const(fa)
    solos = [solo(fa, i) for i in ids]
    runner = sched.Runner(len(ids), case.get("granularity", "line"), OPCODE_FILES)

    def make_bodies():
        c = make_ctx(fa)
        return [(lambda f=OPS[i][1]: f(fa, c, k)) for i in ids]

    for _ in range(4):
        runner.run(make_bodies(), [])
    obs = []
    for _ in range(2):
        ex = runner.run(make_bodies(), case["schedule"])
        obs.append(tuple(key(r) for r in ex.results))
    if obs[0] != obs[1]:
        res.add(Violation("c18.harness", "replay-nondeterministic", "the same schedule gave two different observations", case))
        return res.violations
    for t, r in enumerate(ex.results):
        if key(r) != key(solos[t]):
            res.add(Violation("c18.result", f"differs-from-solo:{OPS[ids[t]][0]}|with:{'+'.join(OPS[j][0] for x, j in enumerate(ids) if x != t)}",
                              f"thread {t} returned {short(r, 300)}; alone {short(solos[t], 300)}", case))
    return res.violations
