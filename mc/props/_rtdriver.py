"""Common driver body for C01 and C02: unit = one schema of the family."""
import collections

from ..harness import UnitResult, Violation, short
from ..ref import conform
from .. import family, alphabet, rt
from ..values import key

UNIT_TIMEOUT_S = 900


def pick_k(node, defs, tier):
    """Deviation bound per schema: the largest k whose D_k fits the budget."""
    limits = {"quick": [(3, 20000), (2, 100000)], "thorough": [(4, 20000), (3, 120000), (2, 400000)]}[tier]
    for k, cap in limits:
        n = len(alphabet.data_for(node, defs, k))
        if n <= cap:
            return k
    return 1


def surrogate_data(node, defs):
    """The base datum with one string position (value or map key) replaced by an unencodable string."""
    from ..ref.names import deref

    out = []

    def walk(n, build):
        n = deref(n, defs)
        k = n["k"]
        if k == "string" and "logical" not in n:
            for u in alphabet.UNENCODABLE:
                out.append(build(u))
        elif k == "array":
            walk(n["items"], lambda v: build([v]))
        elif k == "map":
            for u in alphabet.UNENCODABLE[:1]:
                try:
                    out.append(build({u: alphabet.base(n["values"], defs)}))
                except Exception:
                    pass
            walk(n["values"], lambda v: build({"a": v}))
        elif k == "record" and len(out) < 30:
            try:
                b = alphabet.base(n, defs)
            except Exception:
                return
            for f in n["fields"]:
                walk(f["type"], lambda v, f=f: build(dict(b, **{f["name"]: v})))
        elif k == "union":
            for br in n["branches"]:
                if deref(br, defs)["k"] == "string":
                    walk(br, build)

    try:
        walk(node, lambda v: v)
    except Exception:
        pass
    return out[:12]


def twin(raw):
    """A schema defining the same names differently: enum symbols rotated, record
    fields reversed, fixed size + 1.  None when nothing would change."""
    import copy

    changed = [False]

    def walk(x):
        if isinstance(x, list):
            return [walk(b) for b in x]
        if isinstance(x, dict):
            t = x.get("type")
            x = dict(x)
            if t == "enum" and len(x["symbols"]) > 1:
                x["symbols"] = x["symbols"][1:] + x["symbols"][:1]
                x.pop("default", None)
                changed[0] = True
            elif t == "fixed":
                x["size"] = x["size"] + 1
                changed[0] = True
            elif t == "record":
                fs = [dict(f, type=walk(f["type"])) for f in x["fields"]]
                fs = [{k: v for k, v in f.items() if k != "default"} for f in fs]
                if len(fs) > 1 and not _has_forward_refs(fs):
                    fs = fs[::-1]
                    changed[0] = True
                x["fields"] = fs
            elif t == "array":
                x["items"] = walk(x["items"])
            elif t == "map":
                x["values"] = walk(x["values"])
            return x
        return x

    out = walk(copy.deepcopy(raw))
    return out if changed[0] else None


def _has_forward_refs(fields):
    """Reversing is only legal when no field refers by name to a type defined in an earlier field."""
    import json

    return any(isinstance(f["type"], str) and f["type"] not in family.PRIMS for f in fields) or any(
        '"' + n + '"' in json.dumps([g["type"] for g in fields[i + 1:]])
        for i, f in enumerate(fields) for n in family._names_defined(f["type"], []))


def _has_record_union(node, defs, seen=None):
    """Does the schema contain a union with at least two record branches?"""
    from ..ref.names import deref

    seen = set() if seen is None else seen
    n = deref(node, defs)
    k = n["k"]
    if k == "record":
        if n["name"] in seen:
            return False
        seen.add(n["name"])
        return any(_has_record_union(f["type"], defs, seen) for f in n["fields"])
    if k == "union":
        if sum(1 for b in n["branches"] if deref(b, defs)["k"] == "record") >= 2:
            return True
        return any(_has_record_union(b, defs, seen) for b in n["branches"])
    if k == "array":
        return _has_record_union(n["items"], defs, seen)
    if k == "map":
        return _has_record_union(n["values"], defs, seen)
    return False


def units(tier):
    return ["reentrant"] + list(range(len(family.schemas(tier)) + len(family.logical_extras())))


def run_reentrant(fa, res, checks):
    """A record given as a lazy Mapping whose item access itself encodes another value (to another stream) with the
    library, in the middle of the outer write: each call is judged by its own schema and datum."""
    import collections.abc
    import io as _io

    inner_schema = {"type": "record", "name": "Inner", "fields": [{"name": "v", "type": "long"}, {"name": "t", "type": "string"}]}
    outer_schema = {"type": "record", "name": "Outer", "fields": [{"name": "a", "type": "string"}, {"name": "blob", "type": "bytes"}, {"name": "z", "type": "long"},
                                                                 {"name": "u", "type": ["null", "string"]}]}
    inner_datum = {"v": 8192, "t": "inner"}
    want_inner = _io.BytesIO()
    fa.schemaless_writer(want_inner, inner_schema, inner_datum)

    class Lazy(collections.abc.Mapping):
        def __init__(self):
            self.side = []

        def __getitem__(self, k):
            if k == "a":
                return "first"
            if k == "blob":
                fo = _io.BytesIO()
                fa.schemaless_writer(fo, inner_schema, inner_datum)  # computed on demand with the same library
                self.side.append(fo.getvalue())
                return fo.getvalue()
            if k == "z":
                return -65
            if k == "u":
                return "last"
            raise KeyError(k)

        def __iter__(self):
            return iter(["a", "blob", "z", "u"])

        def __len__(self):
            return 4

    plain = {"a": "first", "blob": want_inner.getvalue(), "z": -65, "u": "last"}
    want = _io.BytesIO()
    fa.schemaless_writer(want, outer_schema, plain)
    for form in ("raw", "parsed"):
        res.evals += 1
        sch = outer_schema if form == "raw" else fa.parse_schema(outer_schema)
        lazy = Lazy()
        fo = _io.BytesIO()
        info = {"schema": outer_schema, "form": form, "datum": "<lazy mapping that encodes an inner record on access>"}
        try:
            fa.schemaless_writer(fo, sch, lazy)
        except Exception as e:
            res.add(Violation("rt.write", f"write-raised:{type(e).__name__}:reentrant", f"writing a lazy Mapping raised {type(e).__name__}: {e}", info))
            continue
        if fo.getvalue() != want.getvalue() or any(x != want_inner.getvalue() for x in lazy.side):
            res.add(Violation("c02.bytes", "reentrant-write-differs", f"a record whose item access encodes another value: outer bytes {fo.getvalue().hex()} expected {want.getvalue().hex()}; inner {[x.hex() for x in lazy.side]}", info))
            continue
        back = fa.schemaless_reader(_io.BytesIO(fo.getvalue()), sch)
        if back != plain:
            res.add(Violation("c01.value", "roundtrip-different-value:reentrant", f"read back {short(back)}", info))
    # collections of very many items that take no bytes at all
    for count in (16385, 20000):
        for item, val in (("null", None), ({"type": "record", "name": "Nothing", "fields": []}, {}), ({"type": "fixed", "name": "Z0", "size": 0}, b"")):
            for kind in ("array", "map"):
                raw_ = {"type": kind, ("items" if kind == "array" else "values"): item}
                datum = [val] * count if kind == "array" else {"k%d" % i: val for i in range(count)}
                res.evals += 1
                info = {"schema": raw_, "form": "raw", "datum": f"<{count} zero-byte items>"}
                try:
                    fo = _io.BytesIO()
                    fa.schemaless_writer(fo, raw_, datum)
                    back = fa.schemaless_reader(_io.BytesIO(fo.getvalue()), raw_)
                    back2 = fa.schemaless_reader(_io.BufferedReader(_io.BytesIO(fo.getvalue())), raw_)
                except Exception as e:
                    res.add(Violation("c01.read", f"read-raised:{type(e).__name__}:zero-byte-items", f"{kind} of {count} zero-byte items: {type(e).__name__}: {str(e)[:100]}", info))
                    continue
                if back != datum or back2 != datum:
                    res.add(Violation("c01.value", "roundtrip-different-value:zero-byte-items", f"{kind} of {count} zero-byte items read back differently", info))
    res.distinct = 2
    res.sample({"reentrant": "lazy Mapping record"})
    return res


def run_unit(i, tier, checks):
    import fastavro as fa

    res = UnitResult()
    if i == "reentrant":
        return run_reentrant(fa, res, checks)
    raw = (family.schemas(tier) + family.logical_extras())[i]
    try:
        cases = rt.prepare(fa, raw)
    except Exception as e:
        res.evals += 1
        res.add(Violation("rt.parse", f"family-schema-rejected:{type(e).__name__}", f"valid schema rejected: {type(e).__name__}: {e} | {short(raw, 500)}", {"schema": raw}))
        return res
    node, defs = cases[0].node, cases[0].defs
    k = pick_k(node, defs, tier)
    data = alphabet.data_for(node, defs, k)
    res.stats[f"schemas_k{k}"] += 1
    outs = set()
    seen = set()
    for d, cost in data:
        kk = key(d)
        if kk in seen:
            continue
        seen.add(kk)
        for c in cases:
            res.evals += 1
            for v in rt.evaluate(fa, c, d, checks):
                res.add(v)
        # the strict options change which data are accepted, never which branch a conforming datum takes
        if cost <= 1 and _has_record_union(node, defs):
            try:
                strict_ok = conform.conforms(node, defs, d, True)
            except Exception:
                strict_ok = False
            if strict_ok and "'-type'" not in repr(d):  # (whether a '-type' key counts as an extra field under strict is not settled by the statements)
                for opt in ({"strict": True}, {"strict_allow_default": True}):
                    res.evals += 1
                    for v in rt.evaluate(fa, cases[0], d, checks, opts=opt):
                        v["sig"] = "strict:" + v["sig"]
                        res.add(v)
    # strings that are not Unicode text (lone surrogates) have no UTF-8 form: the writer must refuse them
    if "c02" in checks:
        import io as _io

        for path_datum in surrogate_data(node, defs):
            for c in cases[:1]:
                res.evals += 1
                fo = _io.BytesIO()
                try:
                    fa.schemaless_writer(fo, c.schema, path_datum)
                except Exception:
                    continue
                res.add(Violation("c02.utf8", "ill-formed-utf8-emitted", f"a string with a lone surrogate was written as {fo.getvalue()[:40].hex()} (not UTF-8) instead of being refused | {short(raw, 300)} datum={short(path_datum, 200)}",
                                  {"schema": raw, "datum": path_datum, "form": "raw"}))
    # the same type names with different definitions, then the original again, in this same
    # process: anything remembered per type name across calls shows up here (deterministically)
    tw = twin(raw)
    if tw is not None:
        try:
            tcases = rt.prepare(fa, tw)
        except Exception:
            tcases = []
        if tcases:
            tdata = alphabet.data_for(tcases[0].node, tcases[0].defs, 1, big=False)
            for d, cost in tdata:
                for c in tcases:
                    res.evals += 1
                    for v in rt.evaluate(fa, c, d, checks):
                        v["sig"] = "after-twin:" + v["sig"]
                        res.add(v)
            for d, cost in alphabet.data_for(node, defs, 1, big=False):
                for c in cases:
                    res.evals += 1
                    for v in rt.evaluate(fa, c, d, checks):
                        v["sig"] = "after-twin:" + v["sig"]
                        v["case"]["after_twin"] = tw
                        res.add(v)
            res.stats["twin_sequences"] += 1
            # one schema OBJECT whose content the caller edits in place between two calls: each call is judged by the
            # content it is given (nothing may be remembered per object identity)
            import copy as _copy

            if isinstance(raw, (dict, list)) and type(raw) is type(tw):
                obj = _copy.deepcopy(raw)
                c0 = rt.Case(raw, obj, node, defs, "raw-same-object")
                for d, cost in alphabet.data_for(node, defs, 0):
                    res.evals += 1
                    for v in rt.evaluate(fa, c0, d, checks):
                        res.add(v)
                if isinstance(obj, dict):
                    obj.clear()
                    obj.update(_copy.deepcopy(tw))
                else:
                    obj[:] = _copy.deepcopy(tw)
                c1 = rt.Case(tw, obj, tcases[0].node, tcases[0].defs, "raw-same-object-edited-in-place")
                for d, cost in tdata[:30]:
                    res.evals += 1
                    for v in rt.evaluate(fa, c1, d, checks):
                        v["sig"] = "edited-in-place:" + v["sig"]
                        res.add(v)
    res.distinct = len(seen)
    res.stats["data"] += len(seen)
    if data:
        res.sample({"schema": raw, "datum": short(data[min(1, len(data) - 1)][0], 200), "k": k})
    return res


def replay(case, checks):
    import fastavro as fa

    out = []
    for c in rt.prepare(fa, case["schema"]):
        if c.form == case.get("form", c.form):
            out += rt.evaluate(fa, c, case["datum"], checks, case.get("opts") or {})
    return out


def standalone(case):
    return (
        "import io, sys; sys.path.insert(0, '/repo')\n"
        "import fastavro\n"
        "nan, inf = float('nan'), float('inf')\n"
        f"schema = {case['schema']!r}\n"
        f"datum = {case['datum']!r}\n"
        + ("schema = fastavro.parse_schema(schema)\n" if case.get("form") == "parsed" else "")
        + "fo = io.BytesIO(); fastavro.schemaless_writer(fo, schema, datum); print(fo.getvalue().hex())\n"
        "fo.seek(0); print(fastavro.schemaless_reader(fo, schema), fo.tell())\n"
    )
