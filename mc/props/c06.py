"""C06 — truncated or sync-corrupted files never yield records that were not
written (crash-point / fault enumeration)."""
import copy
import io

from ..harness import UnitResult, Violation, short, note_case
from .. import cont
from ..values import same
from ..ref import names, conform, binary, container

LEVEL = "fault_enumeration"
RULE = (
    "files: codec in {null, deflate, bzip2, xz} x {0,1,2,3 blocks} x schemas {int, record, union, zero-byte record, string, boolean, a record ending in every fixed-width type, int with 70-record blocks "
    "(two-byte block counts)} "
    "written by the real writer with a fixed marker; EVERY cut offset 0..len of each file is read by reader and by "
    "block_reader: records yielded before stopping must be a bit-exact prefix of the written list, normal termination iff "
    "the cut is the end of the header or the end of a block's marker (boundaries from the independent parser), otherwise an "
    "exception; EVERY byte of EVERY marker after the header x {^0x01,^0x80,^0xFF}: an error must surface when that block is "
    "reached, nothing after it may be yielded; every proper prefix of schemaless encodings of the same records must raise. "
    "distinct_nontrivial = distinct faulted byte strings read."
    ' Each schema x codec also as the three-block file with legal zero-record blocks spliced in after the first block and at the end.'
)
ASSUMPTIONS = [
    "block boundaries come from mc/ref/container.parse of the intact file",
    "single-fault model: one truncation or one altered marker byte per read",
    "pure-Python fastavro only (Cython absent)",
]
UNIT_TIMEOUT_S = 900

SCHEMAS = [
    ("int", "int", [0, 1, -1, 64, 8192, -65, 2 ** 31 - 1, 7]),
    ("record", cont.REC, [{"id": 1, "s": "a", "u": None, "e": "S", "e2": "H"}, {"id": -2 ** 40, "s": "é€", "u": 1.5, "e": "H", "e2": "S"},
                          {"id": 64, "s": "", "e": "S"}, {"id": 3, "s": "x" * 70, "u": -0.0, "e": "H"},
                          {"id": 0, "s": "b", "u": None, "e": "S", "e2": "S"}, {"id": 9, "s": "c", "u": 2.0, "e": "H", "e2": "H"}]),
    ("union", ["null", "long", "string", {"type": "array", "items": "int"}], [None, 5, "five", [1, 2, 3], None, -1]),
    ("zero", {"type": "record", "name": "Z", "fields": []}, [{}, {}, {}, {}, {}, {}]),
    ("string", "string", ["", "a", "bc" * 20, "é", "z" * 130, "q"]),
    ("boolean", "boolean", [False, True, False, False, True, False]),
    ("int-many", "int", list(range(-3, 207))),
    ("bytes-big", "bytes", [b"a" * 70001, b"b" * 3, b"c" * 65537, b"d", b"".join(__import__("hashlib").blake2b(str(i).encode(), digest_size=64).digest() for i in range(2049)), b"f"]),  # values and block payloads beyond 64 KiB  # blocks of 70 records: the block count is a two-byte varint
    # block counts whose varint is a byte with a meaning in text files: 5 records = 0x0A (LF), 13 = 0x1A (Ctrl-Z), 16 = 0x20 (space)
    ("int-c5", "int", list(range(100, 115))),
    ("string-c13", "string", ["s%d" % i for i in range(39)]),
    ("int-c16", "long", [2 ** 40 + i for i in range(48)]),
    # trailing fields that have defaults: a record cut inside them is still cut
    ("trailing-defaults", {"type": "record", "name": "TD", "fields": [
        {"name": "a", "type": "int"}, {"name": "b", "type": "string", "default": "dflt"}, {"name": "c", "type": "long", "default": 7},
        {"name": "d", "type": ["null", "int"], "default": None}, {"name": "e", "type": {"type": "array", "items": "int"}, "default": []}]},
     [{"a": 1, "b": "hello world", "c": 2 ** 40, "d": 5, "e": [1, 2]}, {"a": 2, "b": "", "c": 0, "d": None, "e": []}, {"a": 3, "b": "x", "c": -1, "d": 64, "e": [3]},
      {"a": 4, "b": "y" * 70, "c": 8192, "d": None, "e": []}, {"a": 5, "b": "z", "c": 1, "d": 1, "e": [0]}, {"a": 6, "b": "w", "c": 2, "d": None, "e": [7, 8, 9]}]),
    # values that END in a nullable union (the last thing read is a union index)
    ("nullable-top", ["null", "string"], [None, "a", "", None, "zz" * 30, "q"]),
    ("nullable-last", {"type": "record", "name": "NL", "fields": [{"name": "a", "type": "int"}, {"name": "u", "type": ["null", "string"]}]},
     [{"a": 1, "u": None}, {"a": 2, "u": "x"}, {"a": 3, "u": ""}, {"a": -64, "u": None}, {"a": 5, "u": "yy"}, {"a": 6, "u": None}]),
    ("nullable-first-branch-value", {"type": "record", "name": "NV", "fields": [{"name": "u", "type": ["long", "null"]}]},
     [{"u": 7}, {"u": None}, {"u": -8192}, {"u": 0}, {"u": None}, {"u": 1}]),
    ("tail", {"type": "record", "name": "Tail", "fields": [
        {"name": "f", "type": "float"}, {"name": "d", "type": "double"}, {"name": "by", "type": "bytes"},
        {"name": "fx", "type": {"type": "fixed", "name": "Fx", "size": 2}}, {"name": "m", "type": {"type": "map", "values": "boolean"}},
        {"name": "u", "type": ["null", "boolean"]}, {"name": "e", "type": {"type": "enum", "name": "En", "symbols": ["A", "B"]}},
        {"name": "b", "type": "boolean"}]},
     [{"f": 1.5, "d": -2.0, "by": b"xy", "fx": b"ab", "m": {"k": False}, "u": False, "e": "B", "b": False},
      {"f": 0.0, "d": 0.0, "by": b"", "fx": b"\x00\x00", "m": {}, "u": None, "e": "A", "b": True},
      {"f": 2.0, "d": 1.0, "by": b"q", "fx": b"zz", "m": {"a": True, "b": False}, "u": True, "e": "A", "b": False},
      {"f": 1.5, "d": -2.0, "by": b"xy", "fx": b"ab", "m": {"k": False}, "u": False, "e": "B", "b": False},
      {"f": 1.5, "d": -2.0, "by": b"xy", "fx": b"ab", "m": {"k": True}, "u": False, "e": "B", "b": True},
      {"f": 1.5, "d": -2.0, "by": b"xyz", "fx": b"ab", "m": {"k": False}, "u": None, "e": "B", "b": False}]),
]


def units(tier):
    us = []
    for si in range(len(SCHEMAS)):
        for codec in cont.CODECS:
            for nblocks in (0, 1, 2, 3):
                us.append((si, codec, nblocks))
            if not SCHEMAS[si][0].startswith(("bytes-big",)):
                us.append((si, codec, "3+empty"))
            if SCHEMAS[si][0] in ("int", "record") and codec in ("null", "deflate"):
                for mk in ("zeros", "ones", "magic"):  # sync markers that look special: blank, all ones, the file magic repeated
                    us.append((si, codec, "marker:" + mk))  # the three blocks with legal zero-record blocks after the first and at the end
    return us


def build(fa, si, codec, nblocks, marker_kind=None):
    name, raw, recs = SCHEMAS[si]
    marker = {None: cont.sync_marker(), "zeros": bytes(16), "ones": b"\xff" * 16, "magic": b"Obj\x01" * 4}[marker_kind]
    fo = io.BytesIO()
    w = fa.write.Writer(fo, copy.deepcopy(raw), codec=codec, sync_interval=10 ** 9, sync_marker=marker) if False else None
    from fastavro._write_py import Writer

    w = Writer(fo, copy.deepcopy(raw), codec=codec, sync_interval=10 ** 9, sync_marker=marker)
    per = [[], [recs[0], recs[1]], [recs[2]], [recs[3], recs[4], recs[5]]]
    if name.endswith("-many"):
        per = [[], recs[0:70], recs[70:140], recs[140:210]]
    m = __import__("re").search(r"-c(\d+)$", name)
    if m:
        c = int(m.group(1))
        per = [[], recs[0:c], recs[c:2 * c], recs[2 * c:3 * c]]
    written = []
    for b in range(1, nblocks + 1):
        for r in per[b]:
            w.write(copy.deepcopy(r))
            written.append(r)
        w.flush()
    w.flush()
    return raw, written, fo.getvalue()


_END = object()
HOWS = ("reader", "block_reader", "reader-next", "block_reader-next", "reader+reader_schema", "block_reader+reader_schema")
_RS = [None]


def consume(fa, data, how):
    """-> (records yielded, exception or None)"""
    got = []
    try:
        if how == "reader":
            for r in fa.reader(io.BytesIO(data)):
                got.append(r)
        elif how == "block_reader":
            for blk in fa.block_reader(io.BytesIO(data)):
                for r in blk:
                    got.append(r)
        elif how == "reader-next":
            # the iterator protocol used directly: next(r, default) until the default comes back
            it = fa.reader(io.BytesIO(data))
            while True:
                r = next(it, _END)
                if r is _END:
                    break
                got.append(r)
        elif how == "reader+reader_schema":
            # a reader schema (here: a copy of the writer's) changes how records are resolved, not what counts as a file
            for r in fa.reader(io.BytesIO(data), reader_schema=copy.deepcopy(_RS[0])):
                got.append(r)
        elif how == "block_reader+reader_schema":
            for blk in fa.block_reader(io.BytesIO(data), reader_schema=copy.deepcopy(_RS[0])):
                got.extend(blk)
        else:
            it = fa.block_reader(io.BytesIO(data))
            while True:
                blk = next(it, _END)
                if blk is _END:
                    break
                got.extend(blk)
        return got, None
    except Exception as e:
        return got, e


def run_unit(unit, tier):
    import fastavro as fa

    si, codec, nblocks = unit
    res = UnitResult()
    with_empty = nblocks == "3+empty"
    if with_empty:
        nblocks = 3
    marker_kind = None
    if isinstance(nblocks, str) and nblocks.startswith("marker:"):
        marker_kind, nblocks = nblocks.split(":")[1], 2
    raw, written, data = build(fa, si, codec, nblocks, marker_kind)
    _RS[0] = raw
    node, defs = names.resolve(raw)
    exp = [conform.normalise(node, defs, r) for r in written]
    if with_empty:
        p0 = container.parse(data)
        payload = container.compress(codec, b"")
        empty = b"\x00" + binary.zigzag(len(payload)) + payload + p0["sync"]
        cut1 = p0["blocks"][0]["end"]
        data = data[:cut1] + empty + data[cut1:] + empty
        nblocks = 5
    p = container.parse(data)
    got_ref, per_block = container.records(p)
    assert len(p["blocks"]) == nblocks and len(got_ref) == len(exp) and all(same(a, b) for a, b in zip(got_ref, exp)), "intact file disagrees with reference"
    boundaries = {p["hdr_end"]} | {b["end"] for b in p["blocks"]}
    cum = {p["hdr_end"]: 0}
    n = 0
    for b in p["blocks"]:
        n += b["count"]
        cum[b["end"]] = n
    seen = set()
    base_info = {"schema": raw, "codec": codec, "blocks": nblocks, "len": len(data)}
    # ---- every cut offset (files beyond 64 KiB: every offset near a boundary, the first/last 300 bytes of every
    # block and of the file, every offset around each 64 KiB multiple inside a block, and every 997th otherwise)
    cuts = range(len(data) + 1)
    if len(data) > 66000:
        keep = set(range(0, p["hdr_end"] + 40)) | set(range(len(data) - 400, len(data) + 1)) | set(range(0, len(data), 997))
        for b in p["blocks"]:
            keep |= set(range(max(0, b["offset"] - 40), b["offset"] + 300)) | set(range(b["end"] - 400, b["end"] + 40))
            for m in range(b["offset"], b["end"], 65536):
                keep |= set(range(m - 30, m + 60))
        cuts = sorted(c for c in keep if 0 <= c <= len(data))
        res.stats["big_file_cut_offsets_selected"] += len(cuts)
    for cut in cuts:
        piece = data[:cut]
        seen.add(piece)
        for how in HOWS:
            info = dict(base_info, fault="cut", cut=cut, how=how, unit=unit)
            note_case(info)
            res.evals += 1
            got, err = consume(fa, piece, how)
            if len(got) > len(exp) or not all(same(a, b) for a, b in zip(got, exp)):
                res.add(Violation("c06.cut", "not-a-prefix", f"cut at {cut}: {how} yielded {short(got, 200)}, written {short(exp, 200)} | {short(info, 300)}", info))
                continue
            if err is None:
                if cut not in boundaries:
                    res.add(Violation("c06.cut", "normal-end-off-boundary", f"cut at {cut} (boundaries {sorted(boundaries)}): {how} ended normally after {len(got)} records | {short(info, 300)}", info))
                elif len(got) != cum[cut]:
                    res.add(Violation("c06.cut", "boundary-wrong-count", f"cut at block boundary {cut}: {how} yielded {len(got)} records, the intact blocks hold {cum[cut]} | {short(info, 300)}", info))
            else:
                if cut in boundaries:
                    res.add(Violation("c06.cut", f"boundary-raised:{type(err).__name__}", f"cut exactly at block boundary {cut}: {how} raised {type(err).__name__}: {err} | {short(info, 300)}", info))
    # ---- every alteration of every marker after the header
    for bi, b in enumerate(p["blocks"]):
        upto = cum[b["end"]]
        for off in range(b["end"] - 16, b["end"]):
            for x in (0x01, 0x80, 0xFF):
                mutated = bytearray(data)
                mutated[off] ^= x
                mutated = bytes(mutated)
                seen.add(mutated)
                for how in HOWS:
                    info = dict(base_info, fault="sync", block=bi, offset=off, xor=x, how=how, unit=unit)
                    note_case(info)
                    res.evals += 1
                    got, err = consume(fa, mutated, how)
                    if err is None:
                        res.add(Violation("c06.sync", "altered-marker-not-reported", f"marker of block {bi} altered at {off} (^{x:#x}): {how} ended normally with {len(got)} records | {short(info, 300)}", info))
                    elif len(got) > upto or not all(same(a, c) for a, c in zip(got, exp)):
                        res.add(Violation("c06.sync", "yielded-past-bad-marker", f"marker of block {bi} altered: {how} yielded {len(got)} records (> {upto}) or altered ones | {short(info, 300)}", info))
    # ---- schemaless prefixes of the same records
    for r in written if nblocks == 3 and codec == "null" else []:
        v, idx = conform.plan(node, defs, r)
        enc = binary.encode(node, defs, v, conform.Indices(idx))
        for cut in (range(len(enc)) if len(enc) < 5000 else sorted(set(range(0, 40)) | set(range(len(enc) - 600, len(enc))) | set(range(65500, min(len(enc), 65600))) | set(range(0, len(enc), 1009)))):
            res.evals += 1
            seen.add(("s", enc[:cut]))
            for opt in ({}, {"handle_unicode_errors": "replace"}, {"handle_unicode_errors": "ignore"}, {"return_record_name": True}):
                try:
                    out = fa.schemaless_reader(io.BytesIO(enc[:cut]), copy.deepcopy(raw), **opt)
                except Exception:
                    continue
                info = dict(base_info, fault="schemaless-prefix", cut=cut, record=r, unit=unit, options=opt)
                res.add(Violation("c06.schemaless", "prefix-returned-value" + (":" + "+".join(opt) if opt else ""), f"prefix {enc[:cut].hex()[:200]} of {enc.hex()[:200]} (options {opt}) returned {short(out)} | {short(info, 300)}", info))
                break
        # the same prefixes with the value as a trailing field that the reader schema drops (skip path)
        WL = {"type": "record", "name": "WrapL__", "fields": [{"name": "keep", "type": "int"}, {"name": "skipme", "type": copy.deepcopy(raw)}]}
        RL = {"type": "record", "name": "WrapL__", "fields": [{"name": "keep", "type": "int"}]}
        for cut in (range(len(enc)) if len(enc) < 5000 else sorted(set(range(0, 40)) | set(range(len(enc) - 600, len(enc))) | set(range(0, len(enc), 1009)))):
            res.evals += 1
            seen.add(("sk", enc[:cut]))
            try:
                out = fa.schemaless_reader(io.BytesIO(b"\x02" + enc[:cut]), WL, RL)
            except Exception:
                continue
            info = dict(base_info, fault="schemaless-prefix-skipped", cut=cut, record=r, unit=unit)
            res.add(Violation("c06.schemaless", "prefix-skipped-returned-value", f"prefix {enc[:cut].hex()} of {enc.hex()} in a dropped trailing field returned {short(out)} | {short(info, 300)}", info))
    res.distinct = len(seen)
    res.stats["cut_offsets"] += len(data) + 1
    res.stats["marker_bytes"] += 16 * len(p["blocks"])
    res.sample({"schema": SCHEMAS[si][0], "codec": codec, "blocks": nblocks, "file_len": len(data), "boundaries": sorted(boundaries)})
    return res


def replay(case):
    res = run_unit(tuple(case["unit"]), "quick")
    keep = [v for v in res.violations if all(v["case"].get(k) == case.get(k) for k in ("fault", "cut", "how", "offset", "xor"))]
    return keep or res.violations
