"""C14 — fingerprints equal the spec's CRC-64-AVRO and the named digests.

Exhaustive enumeration of short texts (every string of <=2 code points over a
code-point range that exercises 1-, 2-, 3- and 4-byte UTF-8 forms), long texts,
canonical forms of the schema family, for every advertised fixed-length
algorithm name, plus every unknown-name spelling in a small alphabet."""
import hashlib

from ..harness import UnitResult, Violation, note_case
from ..ref import rabin

LEVEL = "exploration"
RULE = (
    "texts: quick = every single code point U+0000..U+FFFF except surrogates, every ordered pair over U+0000..U+00FF "
    "(drives the CRC register through every table index from 256 predecessor states), every pair over a 64-symbol "
    "alphabet mixing 1/2/3/4-byte code points, texts of 63..8193 characters; thorough = additionally every string of "
    "<=2 code points over U+0000..U+07FF. Each text x CRC-64-AVRO compared with a bit-serial reference; a subset of "
    "texts x every hashlib.algorithms_guaranteed name of fixed digest length + 'MD5' + 'SHA-256' compared with hashlib; "
    "unknown names must raise ValueError. distinct = distinct (text, algorithm) pairs; non-trivial = text non-empty or "
    "algorithm name not CRC (all pairs except the single empty/CRC one are counted)."
)
ASSUMPTIONS = [
    "hashlib of the interpreter is the reference for the named digests",
    "bit-serial CRC reference anchored to the four Apache schema-tests vectors in mc/ref/rabin.py",
    "pure-Python fastavro only; Cython mirrors are not rebuilt (Cython absent)",
]
UNIT_TIMEOUT_S = 600

MIXED = (
    [chr(c) for c in (0, 1, 0x22, 0x30, 0x41, 0x5C, 0x7B, 0x7D, 0x7F)]
    + [chr(c) for c in (0x80, 0xA9, 0xE9, 0xFF, 0x100, 0x3A9, 0x7FF)]
    + [chr(c) for c in (0x800, 0x20AC, 0xD7FF, 0xE000, 0xFFFD, 0xFFFF)]
    + [chr(c) for c in (0x10000, 0x1D11E, 0x1F600, 0x10FFFF)]
)
MIXED = (MIXED + [chr(c) for c in range(0x61, 0x61 + 64)])[:64]

UNKNOWN = [
    "", " ", "UNKNOWN", "crc-64-avro", "CRC-64", "CRC64", "rabin", "Md5", "md-5", "MD-5", "SHA256", "Sha256", "sha-256",
    "SHA-1", "SHA1", "SHA-512", "sha", "md4", "crc32", "adler32", "ripemd160 ", "sha256 ", " sha256", "sha256\n",
    "{algorithm}", "{}", "{0}", "{1}", "sha{bits}", "${FINGERPRINT}", "%s", "%(algorithm)s", "{", "}", "{{}}", "sha256\x00", "\n", "md5;sha256",
]


def _fixed_algos():
    names = []
    for n in sorted(hashlib.algorithms_guaranteed):
        if n.startswith("shake_"):
            continue  # variable-length: excluded by the property statement
        names.append(n)
    return names


def units(tier):
    rabin.selftest()
    us = []
    for hi in range(0, 0x100, 8):  # single code points, BMP in 32 slices
        us.append(("single", hi * 256, (hi + 8) * 256))
    us.append(("single", 0x10000, 0x10000 + 4096))
    us.append(("single", 0x10F000, 0x110000))
    for a in range(0, 256, 16):
        us.append(("pair", a, a + 16, 0, 256))
    us.append(("mixedpair",))
    us.append(("long",))
    us.append(("digests",))
    us.append(("unknown",))
    if tier == "thorough":
        for a in range(0, 0x800, 16):
            us.append(("pair", a, a + 16, 0, 0x800))
    return us


def _check_crc(res, fp, text, idxs):
    note_case(text)
    res.evals += 1
    data = text.encode("utf-8")
    # reference, recording which table indices a table-driven implementation would use
    r = rabin.EMPTY
    for b in data:
        idxs.add((r ^ b) & 0xFF)
        r ^= b
        for _ in range(8):
            r = (r >> 1) ^ rabin.EMPTY if r & 1 else r >> 1
    want = "".join("%02x" % ((r >> (8 * i)) & 0xFF) for i in range(8))
    try:
        got = fp(text, "CRC-64-AVRO")
    except Exception as e:  # noqa
        got = f"raised {type(e).__name__}: {e}"
    if got != want:
        res.add(Violation("crc", "crc-mismatch", f"fingerprint({text!r}, 'CRC-64-AVRO') = {got!r}, specification gives {want!r}",
                          {"kind": "crc", "text": text}))


def _hashlib_name(name):
    """hashlib's name for an advertised spelling: the statement's two Java spellings, hashlib's own names, and for any
    further spelling a tree advertises the unique hashlib algorithm with the same letters and digits."""
    if name in ("MD5", "SHA-256"):
        return {"MD5": "md5", "SHA-256": "sha256"}[name]
    if name in hashlib.algorithms_guaranteed:
        return name
    squash = lambda n: "".join(ch for ch in n.lower() if ch.isalnum())
    hits = [n for n in sorted(hashlib.algorithms_guaranteed) if squash(n) == squash(name)]
    return hits[0] if len(hits) == 1 else None


def _check_digest(res, fp, text, name):
    note_case((text, name))
    res.evals += 1
    py = _hashlib_name(name)
    want = hashlib.new(py, text.encode("utf-8")).hexdigest()
    try:
        got = fp(text, name)
    except Exception as e:  # noqa
        got = f"raised {type(e).__name__}: {e}"
    if got != want:
        res.add(Violation("digest", f"digest-mismatch:{name}", f"fingerprint({text!r}, {name!r}) = {got!r}, hashlib gives {want!r}",
                          {"kind": "digest", "text": text, "name": name}))


def _kw(fp):
    """The same function called with keyword arguments (parameter names taken from its signature)."""
    import inspect

    try:
        names_ = list(inspect.signature(fp).parameters)[:2]
    except (TypeError, ValueError):
        return fp
    return lambda text, name: fp(**{names_[0]: text, names_[1]: name})


def _check_unknown(res, fp, text, name):
    note_case((text, name))
    res.evals += 1
    try:
        got = fp(text, name)
    except ValueError:
        return
    except Exception as e:  # noqa
        got = f"raised {type(e).__name__}: {e}"
    res.add(Violation("unknown-name", f"unknown-accepted:{name!r}", f"fingerprint({text!r}, {name!r}) -> {got!r}; ValueError required",
                      {"kind": "unknown", "text": text, "name": name}))


WORDS = ["null", "boolean", "int", "long", "float", "double", "bytes", "string", "record", "enum", "array", "map", "fixed", "union", "error",
         "md5", "sha256", "MD5", "SHA-256", "CRC-64-AVRO", "true", "false", "{}", "[]", "0", '"', "\\", "int ", " int", "Int"]  # texts that merely LOOK like schemas or algorithm names


def _long_texts():
    out = list(WORDS)
    for n in (63, 64, 65, 255, 256, 257, 1023, 4096, 8191, 8192, 8193):
        out.append("a" * n)
        out.append(("é€𝄞\x00" * n)[:n])
        out.append("".join(chr(0x20 + (i * 7) % 95) for i in range(n)))
    return out


def _schema_forms():
    try:
        from .. import family
        from ..ref import canon, names

        out = []
        for s in family.schemas("quick"):
            try:
                out.append(canon.canonical(names.resolve(s)))
            except Exception:
                pass
        return sorted(set(out))
    except ImportError:
        return []


def run_unit(unit, tier):
    from fastavro.schema import fingerprint as fp

    res = UnitResult()
    idxs = set()
    kind = unit[0]
    if kind == "single":
        for c in range(unit[1], unit[2]):
            if 0xD800 <= c <= 0xDFFF:
                continue
            _check_crc(res, fp, chr(c), idxs)
        res.sample({"text": chr(unit[1] + 0x41) if unit[1] + 0x41 < 0xD800 else "A", "algorithm": "CRC-64-AVRO"})
    elif kind == "pair":
        for a in range(unit[1], unit[2]):
            ca = chr(a)
            for b in range(unit[3], unit[4]):
                _check_crc(res, fp, ca + chr(b), idxs)
        res.sample({"text": chr(unit[1]) + chr(unit[3] + 0x42), "algorithm": "CRC-64-AVRO"})
    elif kind == "mixedpair":
        _check_crc(res, fp, "", idxs)
        for a in MIXED:
            for b in MIXED:
                _check_crc(res, fp, a + b, idxs)
                for c in MIXED[:8]:
                    _check_crc(res, fp, a + b + c, idxs)
    elif kind == "long":
        for t in _long_texts() + _schema_forms():
            _check_crc(res, fp, t, idxs)
        res.sample({"text": "a" * 64, "algorithm": "CRC-64-AVRO"})
    elif kind == "digests":
        texts = [""] + MIXED + [a + b for a in MIXED[:16] for b in MIXED[:16]] + _long_texts() + _schema_forms()[:200]
        import fastavro._schema_common as sc

        more = sorted(n for n in sc.FINGERPRINT_ALGORITHMS if n not in _fixed_algos() + ["MD5", "SHA-256", "CRC-64-AVRO"]
                      and not n.startswith("shake_"))
        for name in more:  # further spellings this tree advertises: each must be the hashlib digest it spells
            if _hashlib_name(name) is None:
                res.add(Violation("advertised", f"advertised-not-a-digest:{name}", f"{name!r} is advertised but names no hashlib algorithm",
                                  {"kind": "adv", "name": name}))
        more = [n for n in more if _hashlib_name(n)]
        for name in _fixed_algos() + ["MD5", "SHA-256", "CRC-64-AVRO"] + more:
            res.sets["algorithms"].add(name)
            for t in texts:
                if name == "CRC-64-AVRO":
                    _check_crc(res, fp, t, idxs)
                else:
                    _check_digest(res, fp, t, name)
        res.sample({"text": "é€", "algorithm": "SHA-256"})
    elif kind == "unknown":
        import fastavro._schema_common as sc
        import os
        import tempfile

        # texts that happen to be the path of an existing file are texts; str subclasses are strings with the str's content
        here = os.getcwd()
        with tempfile.TemporaryDirectory(prefix="verif-c14-") as td:
            for fname in ("int", "notes.txt", '"int"'):
                with open(os.path.join(td, fname), "w") as f:
                    f.write("something else entirely")
            os.makedirs(os.path.join(td, "sub"))
            with open(os.path.join(td, "sub", "x"), "w") as f:
                f.write("{}")
            try:
                os.chdir(td)
                for t in ("int", "notes.txt", '"int"', "sub/x", os.path.join(td, "int"), "sub", "."):
                    _check_crc(res, fp, t, idxs)
                    _check_digest(res, fp, t, "MD5")
                    _check_digest(res, fp, t, "sha256")
            finally:
                os.chdir(here)

        class Shouty(str):
            def __str__(self):
                return "SHOUT:" + str.upper(self)

            def __repr__(self):
                return "Shouty(%s)" % str.__repr__(self)

        import enum

        class Form(str, enum.Enum):
            INT = '"int"'
            REC = '{"name":"R","type":"record","fields":[]}'

        for t in (Shouty('"int"'), Shouty("é"), Form.INT, Form.REC):
            plain = str.__str__(t) if not isinstance(t, enum.Enum) else t.value
            for name in ("CRC-64-AVRO", "MD5", "sha1"):
                res.evals += 1
                try:
                    got, want = fp(t, name), fp(plain, name)
                except Exception as e:
                    got, want = f"raised {type(e).__name__}: {e}", None
                if got != want:
                    res.add(Violation("digest", f"str-subclass-differs:{name}", f"fingerprint of a str subclass instance holding {plain!r} under {name} = {got!r}, of the plain string {want!r}", {"kind": "crc", "text": plain}))

        # every public attribute name of hashlib that is not an advertised algorithm is an unknown algorithm name too
        for name in sorted(n for n in dir(hashlib) if n not in sc.FINGERPRINT_ALGORITHMS):
            _check_unknown(res, fp, '"int"', name)
        # keyword calls behave like positional ones
        fpk = _kw(fp)
        for t in ("", '"int"', "é" * 40):
            _check_crc(res, fpk, t, idxs)
            for name in ("MD5", "SHA-256", "sha1", "sha3_256", "blake2b"):
                _check_digest(res, fpk, t, name)
            _check_unknown(res, fpk, t, "nope")

        for name in UNKNOWN + [n.upper() for n in _fixed_algos() if n.upper() not in ("MD5",)] + ["sm3x", "blake3"]:
            if name in hashlib.algorithms_guaranteed or name in ("MD5", "SHA-256", "CRC-64-AVRO"):
                continue
            if name in sc.FINGERPRINT_ALGORITHMS and _hashlib_name(name):
                continue  # advertised by this tree: checked as a digest in the "digests" unit, not as an unknown name
            for t in ("", '"int"', "é", "md5", "sha256", "SHA-256", "CRC-64-AVRO", "int", name):
                _check_unknown(res, fp, t, name)
        # the advertised set must contain the names the statement lists
        for name in _fixed_algos() + ["MD5", "SHA-256", "CRC-64-AVRO"]:
            res.evals += 1
            if name not in sc.FINGERPRINT_ALGORITHMS:
                res.add(Violation("advertised", f"not-advertised:{name}", f"{name} missing from FINGERPRINT_ALGORITHMS", {"kind": "adv", "name": name}))
        res.sample({"text": '"int"', "algorithm": "SHA256", "expect": "ValueError"})
    res.distinct = res.evals  # every (text, algorithm) pair of a unit is enumerated once; units are disjoint
    res.sets["crc_table_indices"] |= idxs
    return res


def replay(case):
    from fastavro.schema import fingerprint as fp

    res = UnitResult()
    if case["kind"] == "crc":
        _check_crc(res, fp, case["text"], set())
    elif case["kind"] == "digest":
        _check_digest(res, fp, case["text"], case["name"])
    elif case["kind"] == "unknown":
        _check_unknown(res, fp, case["text"], case["name"])
    return res.violations


def standalone(case):
    return (
        "import sys; sys.path.insert(0, '/repo')\n"
        "from fastavro.schema import fingerprint\n"
        f"print(fingerprint({case.get('text')!r}, {case.get('name', 'CRC-64-AVRO')!r}))  # see message for the expected value\n"
    )
