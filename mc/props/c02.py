"""C02 — encoder output is byte-for-byte the specification's encoding."""
from . import _rtdriver as D

LEVEL = "exploration"
RULE = (
    "same case space as C01 (schema family x deviation-bounded data D_k, raw and parsed). For each case the bytes left by "
    "schemaless_writer are decoded by the independent decoder (must consume them exactly and yield the normalised datum "
    "bit for bit), every union index found must select a branch the datum conforms to, and the independent encoder fed "
    "those indices with the single-positive-block layout must reproduce the bytes exactly. distinct_nontrivial = distinct "
    "(schema, datum) pairs."
)
ASSUMPTIONS = [
    "reference encoder/decoder mc/ref/binary.py: zig-zag by integer arithmetic, IEEE via struct, anchored by its own decode(encode)=id self-test and the Java-written fixture files parsed in C05",
    "pure-Python fastavro only (Cython absent)",
]
UNIT_TIMEOUT_S = D.UNIT_TIMEOUT_S
units = D.units


def run_unit(u, tier):
    return D.run_unit(u, tier, {"c02"})


def replay(case):
    return D.replay(case, {"c02"})


standalone = D.standalone
