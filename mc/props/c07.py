"""C07 — any history of write / flush / block-copy / failed write / reopen-for-
append reads back as the records submitted (explicit-state search over
histories on the real Writer, replay-from-fresh)."""
import copy
import io
import os

from ..harness import UnitResult, Violation, short, note_case
from .. import cont
from ..values import same, key
from ..ref import names, conform, binary, container

LEVEL = "model_checking"
RULE = (
    "explicit-state search: a node is an operation history applied to a fresh real fastavro Writer on a BytesIO "
    "(build(hist) replays from scratch). Alphabet: w_small, w_large (>= mid interval), w_bad_first (fails before any byte), "
    "w_bad_last (fails after earlier fields were encoded), flush, copy_block(donor codec null/deflate [thorough: +bzip2,xz]; also a "
    "block whose records were iterated before the copy), "
    "reopen for append with {schema None, same, different schema, other codec, other metadata, other marker, stream cursor left "
    "at the end of the header}; zero-byte "
    "configuration: w_zero, flush, copy_block, reopen. Configurations: codec x sync_interval {1, mid, huge} x validator "
    "on/off, plus three configurations on a real buffered file that is read back through a second handle. ALL histories up to the stated depth are executed; invariant after every flush/reopen: real reader AND the "
    "independent container parser return exactly the reference model's list (records whose write returned normally + "
    "donor records), header bytes unchanged since creation; after EVERY operation block_count equals the number of records "
    "the independent decoder finds in the pending buffer (consuming it exactly). Breadth-first with state merging: states = "
    "distinct canonical (file bytes and cursor, pending bytes and cursor, block_count, every Writer field its methods read, model list, step counter) "
    "tuples; transitions = operations applied (each to a representative history of its source state)."
    " Operation side_file: a second complete container file is written and read back inside the Writer's lifetime."
)
ASSUMPTIONS = [
    "canonical state = everything Writer methods read (output bytes, pending buffer, block_count) plus the model list; merged states have equal futures",
    "reference model: list of records whose write() returned normally plus copied donor records",
    "pure-Python fastavro only (Cython absent)",
]
UNIT_TIMEOUT_S = 1800

S = {"type": "record", "name": "Rec", "namespace": "h", "fields": [
    {"name": "a", "type": "long"}, {"name": "b", "type": "string"}, {"name": "c", "type": ["null", "int"], "default": None},
    {"name": "d", "type": ["string", "null"], "default": "n/a"}]}
S_OTHER = {"type": "record", "name": "Other", "fields": [{"name": "zz", "type": "double"}]}
Z = {"type": "record", "name": "Zero", "fields": [{"name": "n", "type": "null"}]}

OPS_S = ["w_small", "w_large", "w_bad_first", "w_bad_last", "flush", "copy_null", "copy_deflate", "copyiter_null",
         "reopen_none", "reopen_same", "reopen_diff", "reopen_codec", "reopen_meta", "reopen_marker", "reopen_midpos", "side_file", "reopen_samecanon", "w_omit_b", "dump", "flush_fault", "recreate", "w_none_d", "w_bad_encode_only"]
OPS_Z = ["w_zero", "w_zero_omitted", "flush", "copy_null", "reopen_none", "reopen_codec", "side_file", "dump", "flush_fault"]
DEPTH = {"quick": 5, "thorough": 5}
PREFIX = 2


def configs(tier):
    codecs = ["null", "deflate"] if tier == "quick" else ["null", "deflate", "bzip2", "xz"]
    out = []
    for codec in codecs:
        for iv in ("one", "mid", "huge"):
            for validator in (False, True):
                out.append(("S", codec, iv, validator))
    # a real buffered file, read back through a SECOND handle: flush must reach the operating system
    out.append(("SF", "null", "one", False))
    out.append(("SF", "deflate", "huge", False))
    out.append(("SF", "null", "mid", True))
    # codec names in another letter case: either refused when the file is created, or a file that reads back like any other
    # explicit compression levels between the usual ones
    out.append(("S", "deflate@3", "mid", False))
    out.append(("S", "deflate@5", "huge", False))
    out.append(("S", "deflate@0", "one", False))
    out.append(("S", "Deflate", "mid", False))
    out.append(("S", "NULL", "one", False))
    for codec in codecs[:2]:
        for iv in ("one", "huge"):
            out.append(("Z", codec, iv, False))
            out.append(("Z", codec, iv, True))
    return out


CORE_S = ["w_small", "w_large", "w_bad_first", "w_bad_last", "flush", "copy_null", "reopen_none", "reopen_codec"]


def ops_for(cfg, tier):
    if cfg[0] == "Z":
        return OPS_Z + (["w_bad_first"] if cfg[3] else [])
    ops = list(OPS_S)
    if tier == "quick" and cfg[0] == "SF":
        # file-backed configurations: the core and the operations that concern the file as such
        return CORE_S + ["reopen_same", "reopen_marker", "reopen_midpos", "recreate", "dump", "flush_fault"]
    if tier == "quick":
        # the core operations in every configuration, the other ones dealt round-robin (seven per configuration, each in
        # about half of the configurations); the thorough tier explores the whole alphabet everywhere
        extras = [o for o in OPS_S if o not in CORE_S]
        ci = [c for c in configs(tier)].index(cfg)
        ops = CORE_S + [extras[(ci * 4 + j) % len(extras)] for j in range(7)]
    if cfg[3]:
        ops.append("w_bad_validator_only")  # only validation rejects it (bool for long): the raw encoder would take it
    if tier == "thorough":
        ops += ["copy_bzip2", "copy_xz"]
    return ops


def units(tier):
    return list(range(len(configs(tier))))


_DONORS = {}


def donor(fa, kind, codec):
    k = (kind, codec)
    if k not in _DONORS:
        fo = io.BytesIO()
        if kind == "S":
            recs = [{"a": 9001, "b": "donor", "c": 5}, {"a": 9002, "b": "", "c": None}]
            fa.writer(fo, copy.deepcopy(S), recs, codec=codec, sync_marker=b"D" * 16)
        else:
            recs = [{"n": None}, {"n": None}]
            fa.writer(fo, copy.deepcopy(Z), recs, codec=codec, sync_marker=b"D" * 16)
        _DONORS[k] = (fo.getvalue(), recs)
    return _DONORS[k]


def library_state():
    """What the writer-side modules hold at module level in mutable containers and function caches: part of the state key,
    so that two histories are merged only if the LIBRARY is in the same state too (a cache filled by an earlier append is a
    difference).  On the unchanged tree this is constant."""
    import sys

    out = []
    for mname in ("fastavro._write_py", "fastavro._write_common", "fastavro._read_py", "fastavro._read_common", "fastavro._schema_py", "fastavro._schema_common",
                  "fastavro._validation_py", "fastavro.io.binary_encoder", "fastavro.io.binary_decoder"):
        m = sys.modules.get(mname)
        if m is None:
            continue
        for attr, v in vars(m).items():
            if attr.startswith("__"):
                continue
            if isinstance(v, (dict, list, set, bytearray)):
                try:
                    out.append((mname, attr, len(v), repr(sorted(map(repr, v)))[:300] if not isinstance(v, bytearray) else bytes(v[:64])))
                except Exception:
                    out.append((mname, attr, len(v)))
            elif hasattr(v, "cache_info") and callable(getattr(v, "cache_info", None)):
                try:
                    out.append((mname, attr, tuple(v.cache_info())[2:]))
                except Exception:
                    pass
    return out


_PROCESS_DIR = []


def _process_dir():
    if not _PROCESS_DIR:
        import atexit
        import shutil
        import tempfile

        d = tempfile.mkdtemp(prefix="verif-c07-")
        atexit.register(shutil.rmtree, d, True)
        _PROCESS_DIR.append(d)
    return _PROCESS_DIR[0]


class FaultyStream:
    """The output stream as the Writer sees it: everything is passed through, except that write() can be armed to fail once
    (a full disk, a dropped connection) before any byte of that call is taken."""

    def __init__(self, fo):
        self._fo = fo
        self.armed = False
        self.failed = 0

    def write(self, b):
        if self.armed:
            self.armed = False
            self.failed += 1
            raise OSError(28, "No space left on device (injected)")
        return self._fo.write(b)

    def __getattr__(self, name):
        return getattr(self._fo, name)


class World:
    """The real Writer plus the reference model, driven by operation names."""

    def __init__(self, fa, cfg):
        from fastavro._write_py import Writer

        self.fa, self.Writer = fa, Writer
        self.kind, self.codec, iv, self.validator = cfg
        self.level = None
        if "@" in self.codec:  # "deflate@3": codec with an explicit compression level
            self.codec, lvl = self.codec.split("@")
            self.level = int(lvl)
        self.on_file = self.kind == "SF"
        if self.on_file:
            self.kind = "S"
        self.schema = S if self.kind == "S" else Z
        self.interval = {"one": 1, "mid": 24, "huge": 10 ** 9}[iv]
        self.marker = cont.sync_marker()
        if self.on_file:
            # one path per worker process and configuration, used again by every history (as a real job re-creates the
            # same output path): whatever the library remembers about a PATH meets the next file written there
            self._dir = _process_dir()
            self.path = os.path.join(self._dir, "f-%s-%s-%s.avro" % (self.codec, iv, int(bool(self.validator))))
            self.fo = open(self.path, "w+b")
        else:
            self.fo = io.BytesIO()
        # the caller's metadata dict was used for another file (other codec, other schema) just before
        meta = {"origin": "created"}
        Writer(io.BytesIO(), copy.deepcopy(S_OTHER), codec="deflate" if self.codec != "deflate" else "null", metadata=meta, sync_marker=b"o" * 16)
        self.proxy = FaultyStream(self.fo)
        self.w = Writer(self.proxy, copy.deepcopy(self.schema), codec=self.codec, sync_interval=self.interval,
                        validator=self.validator, sync_marker=self.marker, metadata=meta, compression_level=self.level)
        self.model = []
        self.counter = 0
        self.header = None
        self.node, self.defs = names.resolve(self.schema)
        if self.on_file:
            self.fo.flush()
        self.header = self.contents()
        self.hdr_end = container.header_end(self.header)
        self.problems = []

    def _write(self, rec, should_fail):
        try:
            self.w.write(rec)
        except Exception as e:
            if not should_fail:
                self.problems.append(("good-write-raised", f"{type(e).__name__}: {e}"))
            return
        if should_fail:
            self.problems.append(("bad-write-accepted", f"non-conforming record {rec!r} accepted"))
        self.model.append(rec)

    def apply(self, op):
        self.counter += 1
        k = self.counter
        if op == "w_small":
            self._write({"a": k, "b": "s", "c": k}, False)
        elif op == "w_large":
            self._write({"a": -k, "b": "L" * 40}, False)
        elif op == "w_bad_first":
            self._write({"a": "not-a-long", "b": "x"} if self.kind == "S" else {"n": 5}, True)
        elif op == "w_bad_validator_only":
            self._write({"a": True, "b": "s", "c": k}, True)
        elif op == "w_bad_last":
            self._write({"a": k, "b": "ok", "c": "not-an-int"}, True)
        elif op == "w_none_d":
            # an explicit None where the field's default is something else: the None is what was submitted
            self._write({"a": k, "b": "s", "c": None, "d": None}, False)
        elif op == "w_bad_encode_only":
            # passes validation (a str is a string) but cannot be encoded (a lone surrogate has no UTF-8 form), after the
            # first field has already been encoded
            self._write({"a": k, "b": "\ud800", "c": k}, True)
        elif op == "w_omit_b":
            # the file's schema gives b no default: a record without b is never acceptable, whatever schema object a
            # later append was opened with
            self._write({"a": k, "c": None}, True)
        elif op == "w_zero":
            self._write({"n": None}, False)
        elif op == "w_zero_omitted":
            self._write({}, False)
        elif op == "flush":
            self.w.flush()
        elif op == "dump":
            # the public dump(): ends the current block whatever it holds - possibly nothing (a legal zero-record block)
            self.w.dump()
            if self.on_file:
                self.fo.flush()  # dump() leaves flushing the file object to the caller
        elif op == "flush_fault":
            # the stream refuses the first write of the flush; nothing of the block reached it, the records stay pending
            # and a later flush delivers them
            pending_before = self.w.block_count
            self.proxy.armed = True
            try:
                self.w.flush()
                if self.proxy.failed and pending_before:
                    self.problems.append(("fault-swallowed", "the stream's write error did not reach the caller"))
            except OSError:
                pass
            finally:
                self.proxy.armed = False
        elif op == "recreate":
            # the same stream (for a real file: the same path) is emptied and a NEW container is started on it, with
            # another sync marker and the other codec; whatever was learned about the old file no longer applies
            self.w.flush()
            self.fo.seek(0)
            self.fo.truncate()
            self.codec = "deflate" if self.codec == "null" else "null"
            self.marker = b"n" * 16 if self.marker != b"n" * 16 else cont.sync_marker()
            self.w = self.Writer(self.proxy, copy.deepcopy(self.schema), codec=self.codec, sync_interval=self.interval, validator=self.validator,
                                 sync_marker=self.marker, compression_level=None)
            self.level = None
            if self.on_file:
                self.fo.flush()
            self.model = []
            self.header = self.contents()
            self.hdr_end = container.header_end(self.header)
        elif op == "side_file":
            # another container file is produced in the same process while this Writer is alive (another Writer's whole
            # lifetime falls inside this one's, possibly with records pending here): neither may disturb the other
            fo2 = io.BytesIO()
            recs2 = [{"a": 7000 + k, "b": "side", "c": None, "d": None}, {"a": 1, "b": "x" * 30, "c": 2, "d": "dd"}] if self.kind == "S" else [{"n": None}]
            try:
                self.fa.writer(fo2, copy.deepcopy(S if self.kind == "S" else Z), copy.deepcopy(recs2), codec=self.codec, sync_marker=b"E" * 16)
                got2 = list(self.fa.reader(io.BytesIO(fo2.getvalue())))
            except Exception as e:
                got2 = f"{type(e).__name__}: {e}"
            if got2 != recs2:
                self.problems.append(("side-file-differs", f"a second file written meanwhile reads back {got2!r}, written {recs2!r}"))
        elif op.startswith("copy_") or op.startswith("copyiter_"):
            data, recs = donor(self.fa, self.kind, op.split("_", 1)[1])
            blk = next(iter(self.fa.block_reader(io.BytesIO(data))))
            if op.startswith("copyiter_"):
                seen = list(blk)  # the block's records were looked at (e.g. to filter blocks) before it is copied
                assert len(seen) == len(recs)
            self.w.write_block(blk)
            self.model += recs
        elif op.startswith("reopen_"):
            self.w.flush()
            how = op[7:]
            kw = dict(codec=self.codec, sync_interval=self.interval, validator=self.validator, sync_marker=self.marker, compression_level=self.level)
            schema = None
            if how == "same":
                schema = copy.deepcopy(self.schema)
            elif how == "diff":
                schema = copy.deepcopy(S_OTHER)
            elif how == "samecanon":
                # same canonical form as the file's schema, other attributes (a default the file's schema does not have)
                schema = copy.deepcopy(self.schema)
                schema["fields"][1]["default"] = "dflt"
                schema["fields"][0] = dict(schema["fields"][0], doc="changed")
            elif how == "codec":
                kw["codec"] = "deflate" if self.codec != "deflate" else "null"
            elif how == "meta":
                kw["metadata"] = {"origin": "reopened", "extra": "1"}
            elif how == "marker":
                kw["sync_marker"] = b"X" * 16
            self.fo.seek(0, 2)
            if how == "midpos":
                # the stream was just inspected (e.g. its header read): the cursor is non-zero but not at the end
                self.fo.seek(self.hdr_end)
            self.w = self.Writer(self.proxy, schema, **kw)
        else:
            raise AssertionError(op)

    def contents(self):
        """What a reader of the stream sees now (for a real file: through a second handle)."""
        if self.on_file:
            with open(self.path, "rb") as f:
                return f.read()
        return self.fo.getvalue()

    def close(self):
        if self.on_file:
            self.fo.close()

    # ---- observations
    def pending(self):
        return self.w.io._fo.getvalue()

    def state_key(self):
        w = self.w
        # stream cursors are state too: a write lands where the cursor is
        return key((self.contents(), self.fo.tell(), self.pending(), w.io._fo.tell(), w.block_count, [repr(m) for m in self.model], self.counter,
                    getattr(w.block_writer, "__name__", repr(w.block_writer)), w.sync_marker, w.sync_interval, w.compression_level,
                    bool(w.validate_fn), repr(sorted((k, v) for k, v in w.schema.items() if not k.startswith("__")) if isinstance(w.schema, dict) else w.schema),
                    sorted(w._named_schemas), repr(sorted(w.options.items())), library_state()))

    def check_pending(self):
        buf = self.pending()
        pos = 0
        n = 0
        try:
            while pos < len(buf) or n < self.w.block_count:
                if n >= self.w.block_count and pos < len(buf):
                    return f"pending buffer holds {len(buf) - pos} bytes beyond its {self.w.block_count} counted records"
                _, pos, _ = binary.decode(self.node, self.defs, buf, pos)
                n += 1
        except binary.DecodeError as e:
            return f"pending buffer ({buf[:40].hex()}) does not decode as {self.w.block_count} records: {e}"
        if pos != len(buf):
            return "pending buffer not consumed exactly"
        return None

    def check_file(self):
        out = []
        data = self.contents()
        exp = [conform.normalise(self.node, self.defs, m) for m in self.model]
        if data[:len(self.header)] != self.header:
            out.append(("header-changed", "header bytes differ from those written at creation"))
        try:
            got = list(self.fa.reader(io.BytesIO(data)))
            if len(got) != len(exp) or not all(same(a, b) for a, b in zip(got, exp)):
                out.append(("reader-differs", f"reader returns {short(got, 300)}, submitted {short(exp, 300)}"))
        except Exception as e:
            out.append((f"reader-raised:{type(e).__name__}", f"reader raised {type(e).__name__}: {e}; submitted {short(exp, 200)}"))
        try:
            p = container.parse(data)
            got, _ = container.records(p, (self.node, self.defs))
            if len(got) != len(exp) or not all(same(a, b) for a, b in zip(got, exp)):
                out.append(("independent-differs", f"independent parser returns {short(got, 300)}, submitted {short(exp, 300)}"))
        except Exception as e:
            out.append((f"independent-raised:{type(e).__name__}", f"independent parser: {type(e).__name__}: {e}"))
        return out


def run_history(fa, cfg, hist, res, states, check_all):
    """Replay hist on a fresh world; evaluate the invariants after each op when
    check_all, else only after the last one."""
    w = World(fa, cfg)
    try:
        return _run_history(w, fa, cfg, hist, res, check_all)
    finally:
        w.key_cached = None
        if w.on_file:
            try:
                w.key_cached = w.state_key()
            except Exception:
                pass
        w.close()


def _run_history(w, fa, cfg, hist, res, check_all):
    info = {"config": cfg, "history": list(hist)}
    for i, op in enumerate(hist):
        try:
            w.apply(op)
        except Exception as e:
            res.add(Violation("c07.op", f"op-raised:{op.split('_')[0]}:{type(e).__name__}", f"{op} raised {type(e).__name__}: {e} | {short(info, 300)}", info))
            return None
        last = i == len(hist) - 1
        if check_all or last:
            for kind, msg in w.problems:
                res.add(Violation("c07.write", kind, f"{msg} | {short(info, 300)}", info))
            w.problems = []
            msg = w.check_pending()
            if msg:
                res.add(Violation("c07.pending", "pending-buffer-inconsistent", f"after {op}: {msg} | {short(info, 300)}", info))
            if op in ("flush", "dump", "recreate") or op.startswith("reopen_"):
                for kind, m in w.check_file():
                    res.add(Violation("c07.readback", kind, f"after {hist[:i + 1]}: {m} | config {cfg}", info))
    return w


def run_unit(ci, tier):
    import fastavro as fa

    cfg = configs(tier)[ci]
    ops = ops_for(cfg, tier)
    depth = DEPTH[tier]
    res = UnitResult()
    if cfg[1].split("@")[0] not in ("null", "deflate", "bzip2", "xz"):
        try:
            World(fa, cfg).close()
        except ValueError as e:
            res.evals += 1
            res.states = res.distinct = 1
            res.stats["codec_spelling_refused_at_creation"] += 1
            res.sample({"config": list(map(str, cfg)), "creation": f"ValueError: {e}"[:120]})
            return res
        depth = min(depth, 3)
    w0 = run_history(fa, cfg, [], res, None, check_all=True)
    seen = {w0.key_cached if w0.on_file else w0.state_key()}
    frontier = [[]]
    closed_at = None
    for d in range(1, depth + 1):
        nxt = []
        for hist in frontier:
            for o in ops:
                h2 = hist + [o]
                note_case({"config": cfg, "history": h2})
                res.evals += 1
                res.transitions += 1
                w = run_history(fa, cfg, h2, res, None, check_all=False)
                if w is None:
                    continue
                k = w.key_cached if w.on_file else w.state_key()
                if k not in seen:
                    seen.add(k)
                    nxt.append(h2)
        res.stats[f"new_states_depth_{d}"] += len(nxt)
        frontier = nxt
        if not frontier:
            closed_at = d
            break
    res.states = len(seen)
    res.distinct = len(seen)
    res.stats["traces_validated"] += res.evals
    res.stats["frontier_after_last_depth"] += len(frontier)
    res.sample({"config": list(map(str, cfg)), "history": frontier[len(frontier) // 2] if frontier else [], "states": len(seen)})
    return res


def coverage_extra(total, sets, tier):
    return {"depth_completed": DEPTH[tier], "frontier_closed": total.stats.get("frontier_after_last_depth", 1) == 0,
            "note": "breadth-first search per configuration; every operation is applied to one representative history of every distinct state reached at each depth; the state key contains the step counter, so merged states have literally identical futures"}


def replay(case):
    import fastavro as fa

    res = UnitResult()
    run_history(fa, tuple(case["config"]), case["history"], res, set(), check_all=True)
    return res.violations


def standalone(case):
    return f"# PYTHONPATH=/verif:/repo /venv/bin/python -c \"from mc.props import c07; import fastavro; print(c07.replay({case!r}))\""
