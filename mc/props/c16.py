"""C16 — logical types use the specification's representation and round-trip
over their whole domain (exhaustive on factored domains)."""
import datetime
import decimal
import io
import uuid

from ..harness import UnitResult, Violation, short, note_case
from ..ref import binary, logical
from ..values import same

LEVEL = "exploration"
RULE = (
    "date: ALL 3,652,059 dates 0001-01-01..9999-12-31. time-millis: every second of the day x ms in {0,1,499,500,999} and "
    "every ms of the first and last minute (thorough: all 86,400,000). time-micros: every second x us in {0,1,999,1000,"
    "499999,500000,999999} and every us of one (thorough: four) chosen seconds. timestamp-millis/micros and local variants: "
    "every day of the boundary years and the first/last day of every month 0001..9999 (thorough: every day) x "
    "{00:00:00, 23:59:59.999999}, every second of the days around the epoch, year 1 and year 9999 x sub-second set, x every "
    "whole-minute UTC offset in (-24h,+24h) on the boundary instants, ambiguous/skipped wall-clock times around DST changes in 6 "
    "zones with fold=0 then fold=1 (and reversed) on the same tzinfo object and {0,+-00:01,+-05:30,+-23:59} elsewhere; naive values "
    "under timestamp types with TZ=UTC. uuid: all-zero, all-one, every single-bit value, RFC variants. decimal: precision "
    "1..3 (thorough 1..4) x scale 0..precision x storage {bytes, fixed 1..4 that admit the precision} x EVERY coefficient of "
    "up to precision+1 digits x exponent -(scale+2)..+3 x sign (incl. -0), values around +-2^(8k-1) for fixed sizes up to 16, "
    "NaN/Infinity. Oracle (integer arithmetic): the bytes are the specification's representation, the value read back is "
    "the input truncated to the type's precision, and an unrepresentable decimal raises. distinct_nontrivial = distinct "
    "(logical type, value) pairs."
    ' Unit containers: every logical type as map value, array item, record field, two-level nesting and by-name fixed, read with and without an identical reader schema; unions listing a timestamp branch before a date branch.'
)
ASSUMPTIONS = [
    "reference conversions in mc/ref/logical.py use integer arithmetic only",
    "process time zone is UTC (./check exports TZ=UTC) for naive values under timestamp types",
    "pure-Python fastavro only (Cython absent)",
]
UNIT_TIMEOUT_S = 2400
UTC = datetime.timezone.utc
MAXORD = datetime.date.max.toordinal()


def S(base, lt, **kw):
    d = {"type": base, "logicalType": lt}
    d.update(kw)
    return d


def units(tier):
    us = []
    step = 36525
    for lo in range(1, MAXORD + 1, step):
        us.append(("date", lo, min(MAXORD + 1, lo + step)))
    for h in range(24):
        us.append(("time-millis", h))
        us.append(("time-micros", h))
    us.append(("time-micros-dense", 0))
    for sec in (66355, 86399):  # every microsecond of two late seconds as well (values where a float product would round)
        us.append(("time-micros-dense", sec))
    if tier == "thorough":
        for sec in (3599, 43200, 50000, 71999):
            us.append(("time-micros-dense", sec))
        for m in range(0, 1440, 10):
            us.append(("time-millis-dense", m, m + 10))
    else:
        us.append(("time-millis-dense", 0, 1))
        us.append(("time-millis-dense", 1439, 1440))
    for c in range(0, 100):
        us.append(("timestamps", c * 100 + 1, min(10000, c * 100 + 101)))
    for which in ("epoch", "min", "max"):
        for part in range(8):
            us.append(("boundary-day", which, part))
    us.append(("offsets",))
    us.append(("dst-fold",))
    us.append(("logical-unions",))
    us.append(("containers",))
    us.append(("tz-switch",))
    us.append(("uuid",))
    for p in range(1, (3 if tier == "quick" else 4) + 1):
        for sc in range(0, p + 1):
            us.append(("decimal", p, sc))
    us.append(("decimal-big",))
    return us


class Ctx:
    def __init__(self, fa, res):
        self.fa, self.res = fa, res
        self.parsed = {}
        self.n = 0

    def schema(self, raw):
        k = repr(raw)
        if k not in self.parsed:
            node = {"k": raw["type"], "logical": raw["logicalType"]}
            for a in ("precision", "scale", "size", "name"):
                if a in raw:
                    node[a] = raw[a]
            self.parsed[k] = (self.fa.parse_schema(dict(raw)), node)
        return self.parsed[k]

    def check(self, raw, value):
        """One (logical type, value): representation and round trip."""
        fa, res = self.fa, self.res
        parsed, node = self.schema(raw)
        res.evals += 1
        self.n += 1
        info = {"schema": raw, "value": value}
        try:
            under = logical.to_underlying(node, value)
            must_raise = None
        except logical.MustRaise as e:
            under, must_raise = None, str(e)
        fo = io.BytesIO()
        try:
            fa.schemaless_writer(fo, parsed, value)
            werr = None
        except Exception as e:
            werr = e
        if must_raise is not None:
            if werr is None:
                res.add(Violation("c16.reject", f"unrepresentable-accepted:{raw['type']}-{raw['logicalType']}",
                                  f"{value!r} cannot be represented ({must_raise}) but was written as {fo.getvalue().hex()} | {raw}", info))
            return
        if werr is not None:
            res.add(Violation("c16.write", f"write-raised:{raw['type']}-{raw['logicalType']}:{type(werr).__name__}",
                              f"writing {value!r} raised {type(werr).__name__}: {werr} | {raw}", info))
            return
        got_bytes = fo.getvalue()
        base = raw["type"]
        if base in ("int", "long"):
            want = binary.zigzag(under)
            ok = got_bytes == want
        elif base == "string":
            b = under.encode()
            want = binary.zigzag(len(b)) + b
            ok = got_bytes == want
        elif base == "fixed":
            want = under
            ok = got_bytes == want
        else:  # bytes decimal: any two's complement length is a valid representation of the integer
            want = binary.zigzag(len(under)) + under
            try:
                ln, pos = binary.read_varint(got_bytes, 0)
                ok = pos + ln == len(got_bytes) and ln >= 1 and int.from_bytes(got_bytes[pos:], "big", signed=True) == int.from_bytes(under, "big", signed=True)
            except Exception:
                ok = False
        if not ok:
            res.add(Violation("c16.repr", f"representation:{raw['type']}-{raw['logicalType']}",
                              f"{value!r} stored as {got_bytes.hex()}, specification gives {want.hex()} | {raw}", info))
            return
        try:
            expected = logical.from_underlying(node, under)
            exp_err = None
        except (OverflowError, ValueError) as e:
            expected, exp_err = None, e
        fo.seek(0)
        try:
            back = fa.schemaless_reader(fo, parsed)
            rerr = None
        except Exception as e:
            back, rerr = None, e
        if exp_err is not None:
            if rerr is None:
                res.add(Violation("c16.read", f"out-of-range-wrapped:{raw['logicalType']}", f"{value!r} (stored {under}) lies outside the datetime range in UTC but read back as {back!r}", info))
            return
        if rerr is not None:
            res.add(Violation("c16.read", f"read-raised:{raw['type']}-{raw['logicalType']}:{type(rerr).__name__}", f"reading {value!r} back raised {type(rerr).__name__}: {rerr} | {raw}", info))
            return
        if isinstance(expected, decimal.Decimal):
            good = isinstance(back, decimal.Decimal) and back == expected
        elif isinstance(expected, datetime.datetime):
            good = type(back) is datetime.datetime and back == expected and (back.tzinfo is None) == (expected.tzinfo is None) and (
                back.tzinfo is None or back.utcoffset() == datetime.timedelta(0))
        else:
            good = type(back) is type(expected) and back == expected
        if not good:
            res.add(Violation("c16.roundtrip", f"roundtrip:{raw['type']}-{raw['logicalType']}", f"{value!r} read back as {back!r}, expected {expected!r} | {raw}", info))


TS_TYPES = [S("long", "timestamp-millis"), S("long", "timestamp-micros"), S("long", "local-timestamp-millis"), S("long", "local-timestamp-micros")]
SUBSEC = [0, 1, 999, 1000, 499999, 500000, 999999]
FEW_OFFSETS = [0, 1, -1, 330, -330, 1439, -1439]


def ts_values(d, times, offsets):
    for (h, m, s, us) in times:
        naive = datetime.datetime(d.year, d.month, d.day, h, m, s, us)
        yield "naive", naive
        for off in offsets:
            yield "aware", naive.replace(tzinfo=datetime.timezone(datetime.timedelta(minutes=off)) if off else UTC)


def check_ts(ctx, kind, v):
    for raw in TS_TYPES:
        local = raw["logicalType"].startswith("local")
        if local and kind == "aware":
            continue
        ctx.check(raw, v)


def run_unit(unit, tier):
    import fastavro as fa

    res = UnitResult()
    ctx = Ctx(fa, res)
    note_case({"unit": unit})
    kind = unit[0]
    if kind == "date":
        raw = S("int", "date")
        for o in range(unit[1], unit[2]):
            ctx.check(raw, datetime.date.fromordinal(o))
        res.sample({"type": "date", "from": str(datetime.date.fromordinal(unit[1])), "to": str(datetime.date.fromordinal(unit[2] - 1))})
    elif kind == "time-millis":
        raw = S("int", "time-millis")
        h = unit[1]
        for m in range(60):
            for s in range(60):
                for ms in (0, 1, 499, 500, 999):
                    ctx.check(raw, datetime.time(h, m, s, ms * 1000))
                ctx.check(raw, datetime.time(h, m, s, 999999))
                ctx.check(raw, datetime.time(h, m, s, 1999))
    elif kind == "time-millis-dense":
        raw = S("int", "time-millis")
        for minute in range(unit[1], unit[2]):
            for s in range(60):
                for ms in range(1000):
                    ctx.check(raw, datetime.time(minute // 60, minute % 60, s, ms * 1000))
        res.sample({"type": "time-millis", "every_ms_of_minutes": [unit[1], unit[2]]})
    elif kind == "time-micros":
        raw = S("long", "time-micros")
        h = unit[1]
        for m in range(60):
            for s in range(60):
                for us in SUBSEC:
                    ctx.check(raw, datetime.time(h, m, s, us))
    elif kind == "time-micros-dense":
        raw = S("long", "time-micros")
        sec = unit[1]
        for us in range(1000000):
            ctx.check(raw, datetime.time(sec // 3600, sec // 60 % 60, sec % 60, us))
        res.sample({"type": "time-micros", "every_us_of_second": sec})
    elif kind == "timestamps":
        boundary_years = {1, 2, 1582, 1899, 1900, 1901, 1969, 1970, 1971, 2000, 2037, 2038, 2039, 2100, 9998, 9999}
        times = [(0, 0, 0, 0), (23, 59, 59, 999999)]
        for y in range(unit[1], unit[2]):
            dense = tier == "thorough" or y in boundary_years
            d = datetime.date(y, 1, 1)
            end = datetime.date(y, 12, 31)
            one = datetime.timedelta(days=1)
            while True:
                last_of_month = (d + one).month != d.month if d != datetime.date.max else True
                if dense or d.day == 1 or last_of_month:
                    for k, v in ts_values(d, times, FEW_OFFSETS if (d.day == 1 and d.month in (1, 7)) else [0]):
                        check_ts(ctx, k, v)
                if d == end:
                    break
                d += one
        res.sample({"type": "timestamps", "years": [unit[1], unit[2] - 1]})
    elif kind == "boundary-day":
        day = {"epoch": datetime.date(1970, 1, 1), "min": datetime.date(1, 1, 1), "max": datetime.date(9999, 12, 31)}[unit[1]]
        days = [day] + ([datetime.date(1969, 12, 31)] if unit[1] == "epoch" else [])
        part = unit[2]
        for d in days:
            for sec in range(part * 10800, (part + 1) * 10800):
                tms = [(sec // 3600, sec // 60 % 60, sec % 60, us) for us in (SUBSEC if sec % 60 in (0, 59) else (0, 999999))]
                for k, v in ts_values(d, tms, [0] if sec % 600 else FEW_OFFSETS):
                    check_ts(ctx, k, v)
    elif kind == "offsets":
        instants = [datetime.datetime(1970, 1, 1, 0, 0, 0, 0), datetime.datetime(1969, 12, 31, 23, 59, 59, 999999), datetime.datetime(1, 1, 1, 0, 0, 0, 0),
                    datetime.datetime(1, 1, 1, 23, 59, 59, 999999), datetime.datetime(9999, 12, 31, 23, 59, 59, 999999), datetime.datetime(9999, 12, 31, 0, 0, 0, 1),
                    datetime.datetime(2024, 2, 29, 12, 30, 15, 500500)]
        for base in instants:
            for off in range(-1439, 1440):
                v = base.replace(tzinfo=datetime.timezone(datetime.timedelta(minutes=off)) if off else UTC)
                check_ts(ctx, "aware", v)
        res.sample({"type": "timestamps", "every_whole_minute_offset_at": [str(i) for i in instants]})
    elif kind == "dst-fold":
        # ambiguous wall-clock times in zones with daylight saving: fold=0 and fold=1 denote different
        # instants although the two datetimes compare and hash equal (same tzinfo object)
        class Dst(datetime.tzinfo):
            """+1h from the last Sunday of March 01:00 UTC to the last Sunday of October 01:00 UTC (EU rule), base offset given."""

            def __init__(self, base):
                self.base = datetime.timedelta(minutes=base)

            def _is_dst(self, dt):
                y = dt.year
                def last_sunday(month):
                    d = datetime.datetime(y, month, 31 if month in (3, 10) else 30)
                    return d - datetime.timedelta(days=(d.weekday() + 1) % 7)
                start = last_sunday(3).replace(hour=1) + self.base
                end = last_sunday(10).replace(hour=1) + self.base + datetime.timedelta(hours=1)
                naive = dt.replace(tzinfo=None)
                if start + datetime.timedelta(hours=1) <= naive < end - datetime.timedelta(hours=1):
                    return True
                if end - datetime.timedelta(hours=1) <= naive < end:
                    return dt.fold == 0  # the repeated hour: first pass is still summer time
                return False

            def utcoffset(self, dt):
                return self.base + (datetime.timedelta(hours=1) if self._is_dst(dt) else datetime.timedelta(0))

            def dst(self, dt):
                return datetime.timedelta(hours=1) if self._is_dst(dt) else datetime.timedelta(0)

            def tzname(self, dt):
                return "DST%s" % self.base

        zones = [Dst(60), Dst(0), Dst(-300)]
        try:
            import zoneinfo

            zones += [zoneinfo.ZoneInfo("America/New_York"), zoneinfo.ZoneInfo("Europe/Berlin"), zoneinfo.ZoneInfo("Australia/Lord_Howe")]
        except Exception:
            res.stats["zoneinfo_unavailable"] += 1
        walls = []
        for y in (1996, 2021, 2037):
            for mo, day in ((10, 31), (10, 27), (11, 7), (11, 3), (4, 4), (3, 28), (3, 14)):
                for h in (0, 1, 2, 3):
                    for mi, us_ in ((0, 0), (30, 0), (59, 999999)):
                        try:
                            walls.append(datetime.datetime(y, mo, day, h, mi, 59 if mi == 59 else 0, us_))
                        except ValueError:
                            pass
        for z in zones:
            for w in walls:
                for folds in ((0, 1), (1, 0)):
                    for f in folds:
                        v = w.replace(tzinfo=z, fold=f)
                        for raw in TS_TYPES[:2]:
                            ctx.check(raw, v)
        res.sample({"type": "timestamps", "dst_zones": len(zones), "wall_clock_times": len(walls), "each_with": "fold 0 then 1, and 1 then 0, same tzinfo object"})
    elif kind == "logical-unions":
        # several logical types over one base type in a union: the converter must follow the WRITER's branch,
        # with and without a reader schema (an identical copy, or one with the branches reordered)
        import copy as _copy

        D, TM = S("int", "date"), S("int", "time-millis")
        TU, TSU, TSM, LTU = S("long", "time-micros"), S("long", "timestamp-micros"), S("long", "timestamp-millis"), S("long", "local-timestamp-micros")
        cases = [
            (["null", D, TM], [datetime.date(2020, 2, 29), datetime.time(12, 30, 15, 500000), None]),
            (["null", TM, D], [datetime.date(1970, 1, 2), datetime.time(0, 0, 1), None]),
            (["null", TSU, TU, "string"], [datetime.datetime(2021, 3, 4, 5, 6, 7, 8, tzinfo=UTC), datetime.time(1, 2, 3, 4), "s"]),
            (["null", TU, TSM], [datetime.time(23, 59, 59, 999999), datetime.datetime(1969, 12, 31, 23, 59, 59, 999000, tzinfo=UTC)]),
            (["null", TU, LTU], [datetime.time(0, 0, 0, 1), datetime.datetime(2000, 1, 1, 0, 0, 0, 1)]),
            # a timestamp branch listed before a date branch (the order that keeps a datetime's time of day): a plain date is a date
            (["null", LTU, D], [datetime.date(2020, 2, 29), datetime.date(1, 1, 1), datetime.date(9999, 12, 31), datetime.datetime(2000, 1, 1, 12, 0, 0, 1)]),
            (["null", S("long", "local-timestamp-millis"), D], [datetime.date(1969, 12, 31), datetime.datetime(2000, 1, 1, 12, 0, 0, 1000)]),
            (["null", TSU, D], [datetime.date(1970, 1, 1), datetime.datetime(2021, 3, 4, 5, 6, 7, 8, tzinfo=UTC)]),
            ([TSM, D, TM], [datetime.date(2038, 1, 19), datetime.time(1, 2, 3), datetime.datetime(2021, 3, 4, 5, 6, 7, 8000, tzinfo=UTC)]),
            ({"type": "record", "name": "LU", "fields": [{"name": "a", "type": ["null", D, TM]}, {"name": "b", "type": {"type": "array", "items": [TSU, TU]}},
                                                        {"name": "c", "type": {"type": "map", "values": ["null", TM, D]}}]},
             [{"a": datetime.time(1, 1, 1), "b": [datetime.time(2, 2, 2, 2), datetime.datetime(2020, 1, 1, tzinfo=UTC)], "c": {"k": datetime.date(2000, 1, 1), "l": datetime.time(3, 3, 3)}}]),
        ]
        for sch, vals in cases:
            readers = [None, _copy.deepcopy(sch)]
            if isinstance(sch, list):
                readers.append([sch[0]] + list(reversed(_copy.deepcopy(sch[1:]))))
            for v in vals:
                for rs in readers:
                    res.evals += 1
                    ctx.n += 1
                    info = {"schema": sch, "value": v, "reader_schema": rs}
                    try:
                        fo = io.BytesIO()
                        fa.schemaless_writer(fo, _copy.deepcopy(sch), v)
                        payload = fo.getvalue()
                        a = fa.schemaless_reader(io.BytesIO(payload), _copy.deepcopy(sch), _copy.deepcopy(rs)) if rs is not None else fa.schemaless_reader(io.BytesIO(payload), _copy.deepcopy(sch))
                        fo = io.BytesIO()
                        fa.writer(fo, _copy.deepcopy(sch), [v], sync_marker=b"L" * 16)
                        fo.seek(0)
                        b = list(fa.reader(fo, reader_schema=_copy.deepcopy(rs)))[0]
                    except Exception as e:
                        res.add(Violation("c16.union", f"logical-union-raised:{type(e).__name__}", f"{type(e).__name__}: {e} | {short(info, 400)}", info))
                        continue
                    for got, how in ((a, "schemaless"), (b, "container")):
                        if type(got) is not type(v) or got != v:
                            res.add(Violation("c16.union", f"logical-union-wrong-converter:{how}", f"{v!r} written under {sch} read back ({how}, reader_schema={'given' if rs is not None else 'none'}) as {got!r}", info))
        # values no branch can hold: a Decimal with too many fractional / significant digits next to a float branch
        # (a Decimal is not a float), in either order - the writer must refuse them
        DEC42 = {"type": "bytes", "logicalType": "decimal", "precision": 4, "scale": 2}
        FD2 = {"type": "fixed", "name": "Fd2", "size": 2, "logicalType": "decimal", "precision": 4, "scale": 2}
        for sch in ([DEC42, "double"], ["double", DEC42], ["null", FD2, "float"], [DEC42, "double", "string"]):
            for v in (decimal.Decimal("1.234"), decimal.Decimal("123.45"), decimal.Decimal("NaN")):
                res.evals += 1
                ctx.n += 1
                info = {"schema": sch, "value": v, "reader_schema": None}
                try:
                    fo = io.BytesIO()
                    fa.schemaless_writer(fo, _copy.deepcopy(sch), v)
                except Exception:
                    continue
                res.add(Violation("c16.reject", "unrepresentable-accepted:union-with-float-branch", f"{v!r} fits no branch of {sch} but was written as {fo.getvalue().hex()}", info))
        res.sample({"type": "unions of logical types over one base type", "cases": len(cases)})
    elif kind == "containers":
        # every logical type as map value, array item, record field, nested two deep and by name: the conversion applies at
        # every position, read with no reader schema and with an identical one, schemaless and from a container
        import copy as _copy

        FD = {"type": "fixed", "name": "FD4", "size": 4, "logicalType": "decimal", "precision": 9, "scale": 2}
        samples = [
            (S("int", "date"), [datetime.date(1, 1, 1), datetime.date(1969, 12, 31), datetime.date(2020, 2, 29), datetime.date(9999, 12, 31)]),
            (S("int", "time-millis"), [datetime.time(0, 0), datetime.time(23, 59, 59, 999000)]),
            (S("long", "time-micros"), [datetime.time(0, 0, 0, 1), datetime.time(23, 59, 59, 999999)]),
            (S("long", "timestamp-millis"), [datetime.datetime(1969, 12, 31, 23, 59, 59, 999000, tzinfo=UTC), datetime.datetime(2021, 3, 4, 5, 6, 7, 8000, tzinfo=UTC)]),
            (S("long", "timestamp-micros"), [datetime.datetime(1, 1, 1, tzinfo=UTC), datetime.datetime(2021, 3, 4, 5, 6, 7, 8, tzinfo=UTC)]),
            (S("long", "local-timestamp-millis"), [datetime.datetime(1969, 12, 31, 23, 59, 59, 999000), datetime.datetime(2021, 3, 4, 5, 6, 7, 8000)]),
            (S("long", "local-timestamp-micros"), [datetime.datetime(9999, 12, 31, 23, 59, 59, 999999), datetime.datetime(2021, 3, 4, 5, 6, 7, 8)]),
            (S("string", "uuid"), [uuid.UUID(int=0), uuid.UUID("12345678-1234-4234-9234-123456789abc")]),
            ({"type": "bytes", "logicalType": "decimal", "precision": 9, "scale": 2}, [decimal.Decimal("-1234567.89"), decimal.Decimal("0.00"), decimal.Decimal("0.01")]),
            (FD, [decimal.Decimal("-1234567.89"), decimal.Decimal("1.00")]),
        ]
        for leaf, vals in samples:
            shapes = [
                ("map", {"type": "map", "values": leaf}, lambda v: {"k": v, "": v}),
                ("array", {"type": "array", "items": leaf}, lambda v: [v, v]),
                ("field", {"type": "record", "name": "Rf", "fields": [{"name": "f", "type": leaf}]}, lambda v: {"f": v}),
                ("map-of-arrays", {"type": "map", "values": {"type": "array", "items": leaf}}, lambda v: {"k": [v], "l": []}),
                ("array-of-maps", {"type": "array", "items": {"type": "map", "values": leaf}}, lambda v: [{"k": v}, {}]),
                ("map-of-records", {"type": "map", "values": {"type": "record", "name": "Rm", "fields": [{"name": "f", "type": leaf}]}}, lambda v: {"k": {"f": v}}),
                ("nullable-map-values", {"type": "map", "values": ["null", leaf]}, lambda v: {"k": v, "n": None}),
            ]
            if leaf.get("type") == "fixed":
                shapes.append(("by-name", {"type": "record", "name": "Rn", "fields": [{"name": "first", "type": leaf}, {"name": "m", "type": {"type": "map", "values": leaf["name"]}},
                                                                                    {"name": "a", "type": {"type": "array", "items": leaf["name"]}}]}, lambda v: {"first": v, "m": {"k": v}, "a": [v]}))
            for shape, sch, mk in shapes:
                for v in vals:
                    d = mk(v)
                    for rs in (None, _copy.deepcopy(sch)):
                        res.evals += 1
                        ctx.n += 1
                        info = {"schema": sch, "value": d, "reader_schema": rs}
                        try:
                            fo = io.BytesIO()
                            fa.schemaless_writer(fo, _copy.deepcopy(sch), _copy.deepcopy(d))
                            a = fa.schemaless_reader(io.BytesIO(fo.getvalue()), _copy.deepcopy(sch), _copy.deepcopy(rs)) if rs is not None else fa.schemaless_reader(io.BytesIO(fo.getvalue()), _copy.deepcopy(sch))
                            fo = io.BytesIO()
                            fa.writer(fo, _copy.deepcopy(sch), [_copy.deepcopy(d)], sync_marker=b"L" * 16)
                            fo.seek(0)
                            b = list(fa.reader(fo, reader_schema=_copy.deepcopy(rs)))[0]
                        except Exception as e:
                            res.add(Violation("c16.container-position", f"logical-in-{shape}-raised:{type(e).__name__}", f"{type(e).__name__}: {e} | {short(info, 400)}", info))
                            continue
                        for got, how in ((a, "schemaless"), (b, "container")):
                            if repr(got) != repr(d) or got != d:
                                res.add(Violation("c16.container-position", f"logical-in-{shape}-not-converted:{leaf['logicalType']}",
                                                  f"{d!r} written under {sch} read back ({how}, reader_schema={'given' if rs is not None else 'none'}) as {got!r}", info))
        # very many logical values in one read (nothing may accumulate per converted value)
        for leaf, vals in samples[:2] + samples[8:9]:
            for count in (450, 1200, 5000):
                for sch, d in (({"type": "array", "items": leaf}, [vals[i % len(vals)] for i in range(count)]),
                               ({"type": "map", "values": leaf}, {"k%d" % i: vals[i % len(vals)] for i in range(count)})):
                    res.evals += 1
                    ctx.n += 1
                    info = {"schema": sch, "value": f"<{count} values>", "reader_schema": None}
                    try:
                        fo = io.BytesIO()
                        fa.schemaless_writer(fo, _copy.deepcopy(sch), d)
                        got = fa.schemaless_reader(io.BytesIO(fo.getvalue()), _copy.deepcopy(sch))
                    except Exception as e:
                        res.add(Violation("c16.container-position", f"many-logical-values-raised:{type(e).__name__}", f"{count} {leaf['logicalType']} values in one {sch['type']}: {type(e).__name__}: {str(e)[:120]}", info))
                        continue
                    if got != d:
                        res.add(Violation("c16.container-position", "many-logical-values-differ", f"{count} {leaf['logicalType']} values in one {sch['type']} read back differently", info))
        res.sample({"type": "logical types inside containers", "leaves": len(samples), "shapes": 8})
    elif kind == "tz-switch":
        # the library is imported while the process is in a fixed-offset zone; the zone is UTC again when values are
        # written (what the local zone is must be asked when a value is converted, not remembered from import time)
        import os
        import time as _time

        from .c17 import purge
        from ..harness import setup_fastavro

        try:
            for zone in ("EST5", "JST-9", "<+0545>-5:45"):
                os.environ["TZ"] = zone
                _time.tzset()
                purge()
                fa2 = setup_fastavro()
                import fastavro._logical_writers_py  # noqa: F401  (imported under `zone`)
                os.environ["TZ"] = "UTC"
                _time.tzset()
                ctx2 = Ctx(fa2, res)
                for v in (datetime.datetime(1970, 1, 1), datetime.datetime(2021, 3, 4, 5, 6, 7, 8000), datetime.datetime(1969, 12, 31, 23, 59, 59, 999000),
                          datetime.datetime(9999, 12, 31, 23, 59, 59, 999000), datetime.datetime(1, 1, 1), datetime.datetime(2023, 7, 1, 12)):
                    for raw in TS_TYPES:
                        ctx2.check(raw, v)
                    ctx2.check(TS_TYPES[0], v.replace(tzinfo=UTC))
                ctx.n += ctx2.n
            # the process stays in a non-UTC zone: AWARE datetimes denote an instant whatever the local zone is
            class Zero(datetime.tzinfo):
                def utcoffset(self, dt):
                    return datetime.timedelta(0)

                def dst(self, dt):
                    return None

                def tzname(self, dt):
                    return "Z"

            for zone in ("EST5", "JST-9"):
                os.environ["TZ"] = zone
                _time.tzset()
                purge()
                fa2 = setup_fastavro()
                ctx3 = Ctx(fa2, res)
                for tz in (UTC, datetime.timezone(datetime.timedelta(0), "GMT"), Zero(), datetime.timezone(datetime.timedelta(hours=5, minutes=30)), datetime.timezone(datetime.timedelta(hours=-5))):
                    for v in (datetime.datetime(1970, 1, 1, tzinfo=tz), datetime.datetime(2021, 3, 4, 5, 6, 7, 8000, tzinfo=tz), datetime.datetime(1969, 12, 31, 23, 59, 59, 999000, tzinfo=tz),
                              datetime.datetime(2023, 7, 1, 12, tzinfo=tz)):
                        for raw in TS_TYPES[:2]:
                            ctx3.check(raw, v)
                ctx.n += ctx3.n
        finally:
            os.environ["TZ"] = "UTC"
            _time.tzset()
            purge()
            setup_fastavro()
        res.sample({"type": "timestamps", "imported_under": ["EST5", "JST-9", "+05:45"], "written_under": "UTC, and aware values under EST5 / JST-9"})
    elif kind == "uuid":
        raw = S("string", "uuid")
        vals = [uuid.UUID(int=0), uuid.UUID(int=(1 << 128) - 1)] + [uuid.UUID(int=1 << b) for b in range(128)]
        vals += [uuid.UUID("12345678-1234-1234-8234-123456789abc"), uuid.UUID("12345678-1234-4234-9234-123456789abc"),
                 uuid.UUID("12345678-1234-5234-a234-123456789abc"), uuid.UUID("12345678-1234-3234-b234-123456789abc"),
                 uuid.UUID("FFFFFFFF-FFFF-4FFF-BFFF-FFFFFFFFFFFF"), uuid.UUID("00000000-0000-0000-c000-000000000046")]
        for v in vals:
            ctx.check(raw, v)
        # a str given for a uuid position is written as it is (whatever spelling of the UUID it uses)
        parsed_u = fa.parse_schema(dict(raw))
        for text in ("12345678-1234-4234-9234-123456789ABC", "{12345678-1234-4234-9234-123456789abc}", "urn:uuid:12345678-1234-4234-9234-123456789abc",
                     "12345678123442349234123456789abc", "12345678-1234-4234-9234-123456789abc", "00000000-0000-0000-0000-000000000000"):
            res.evals += 1
            ctx.n += 1
            fo = io.BytesIO()
            try:
                fa.schemaless_writer(fo, parsed_u, text)
                got = fo.getvalue()
            except Exception as e:
                got = f"{type(e).__name__}: {e}"
            want = binary.zigzag(len(text.encode())) + text.encode()
            if got != want:
                res.add(Violation("c16.repr", "representation:string-uuid-given-as-str", f"the str {text!r} under string/uuid was stored as {got!r}, its UTF-8 is {want!r}", {"schema": raw, "value": text}))
        res.sample({"type": "uuid", "values": len(vals)})
    elif kind == "decimal":
        p, sc = unit[1], unit[2]
        storages = [{"type": "bytes", "logicalType": "decimal", "precision": p, "scale": sc}]
        for size in (1, 2, 3, 4):
            maxp = int((8 * size - 1) * 0.30102999566398120)
            if p <= maxp:
                storages.append({"type": "fixed", "name": f"D{size}", "size": size, "logicalType": "decimal", "precision": p, "scale": sc})
        for raw in storages:
            for coeff in range(0, 10 ** (p + 1)):
                digits = tuple(int(c) for c in str(coeff))
                for exp in range(-(sc + 2), 4):
                    for sign in (0, 1):
                        ctx.check(raw, decimal.Decimal((sign, digits, exp)))
            for special in ("NaN", "Infinity", "-Infinity", "sNaN"):
                ctx.check(raw, decimal.Decimal(special))
            # leading zeros in the digit tuple, zero with exponents
            ctx.check(raw, decimal.Decimal((0, (0, 0, 1), 0)))
            ctx.check(raw, decimal.Decimal((1, (0,), -sc)))
        res.sample({"type": "decimal", "precision": p, "scale": sc, "storages": [s["type"] + str(s.get("size", "")) for s in storages]})
    elif kind == "decimal-big":
        for size in range(1, 17):
            maxp = int((8 * size - 1) * 0.30102999566398120)
            if maxp < 1:
                continue
            raws = [{"type": "fixed", "name": f"B{size}", "size": size, "logicalType": "decimal", "precision": maxp, "scale": 0},
                    {"type": "bytes", "logicalType": "decimal", "precision": 40, "scale": 0}]
            edge = 1 << (8 * size - 1)
            for raw in raws:
                for v in (edge - 2, edge - 1, edge, edge + 1, -edge + 1, -edge, -edge - 1, -edge - 2, 10 ** maxp - 1, -(10 ** maxp - 1), 10 ** maxp, 255, 256, -255, -256, -257, 127, 128, -128, -129):
                    ctx.check(raw, decimal.Decimal(v))
        for raw in ({"type": "bytes", "logicalType": "decimal", "precision": 38, "scale": 4}, {"type": "bytes", "logicalType": "decimal", "precision": 38, "scale": 0},
                    {"type": "fixed", "name": "B16", "size": 16, "logicalType": "decimal", "precision": 38, "scale": 4}):
            for txt in ("1234567890123456789012345678.9012", "-1234567890123456789012345678.9012", "9999999999999999999999999999999999.9999",
                        "0.0001", "-0.0001", "1E+30", "12345678901234567890123456789012345678", "1.00000", "100000000000000000000000000000000000000"):
                ctx.check(raw, decimal.Decimal(txt))
        res.sample({"type": "decimal", "big_sizes": "1..16 around +-2^(8k-1), 38-digit values"})
    res.distinct = ctx.n
    res.stats["values_" + kind] += ctx.n
    return res


def replay(case):
    import fastavro as fa

    res = UnitResult()
    if "reader_schema" in case:
        return run_unit(("logical-unions",), "quick").violations
    Ctx(fa, res).check(case["schema"], case["value"])
    return res.violations


def standalone(case):
    return (
        "import io, sys, datetime, decimal, uuid; sys.path.insert(0, '/repo')\nimport fastavro\nfrom decimal import Decimal\nfrom uuid import UUID\n"
        f"schema = {case['schema']!r}\nvalue = {case['value']!r}\n"
        "fo = io.BytesIO(); fastavro.schemaless_writer(fo, schema, value); print(fo.getvalue().hex()); fo.seek(0); print(repr(fastavro.schemaless_reader(fo, schema)))\n"
    )
