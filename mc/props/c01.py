"""C01 — binary round trip for all schemas of the family x D_k data."""
from . import _rtdriver as D

LEVEL = "exploration"
RULE = (
    "for every schema of the family (atoms, every depth-1 construction over the atoms, depth-2 over the representative "
    "child set, the named-type/namespace/recursion family; raw and pre-parsed) the complete deviation-bounded datum set "
    "D_k (base datum with <=k positions replaced by any other element of that position's alphabet: varint-length "
    "boundaries, float specials, string/bytes lengths 0/63/64/65/8192, collection shapes incl. 63/64/65 elements, every "
    "union branch with and without hints, omitted defaulted fields, permuted keys); k per schema is the largest whose "
    "D_k fits the tier budget (reported in stats.schemas_k*). Each datum is written, read back, compared bit-exactly with "
    "the reference normalisation, the stream position checked, and two values read back to back. distinct_nontrivial = "
    "distinct (schema, datum) pairs (by typed hash), each run in raw and parsed form."
)
ASSUMPTIONS = [
    "reference model mc/ref (names, conform, binary) written from the specification; self-checked by C02's byte-level agreement",
    "pure-Python fastavro only (Cython absent)",
    "data outside the alphabets and schema trees deeper than the family are not covered",
]
UNIT_TIMEOUT_S = D.UNIT_TIMEOUT_S
units = D.units


def run_unit(u, tier):
    return D.run_unit(u, tier, {"c01"})


def replay(case):
    return D.replay(case, {"c01"})


standalone = D.standalone
