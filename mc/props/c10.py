"""C10 — validate accepts exactly conforming data and agrees with what the
writers accept."""
import copy
import io

from ..harness import UnitResult, Violation, short, note_case
from .. import family, alphabet, cont
from ..values import same, key
from ..ref import names, conform
from ..ref.names import deref, branch_name, accepts_null
from ..classify import omits_bytes_field_with_string_default

LEVEL = "exploration"
RULE = (
    "every schema of the family x (conforming data D_1 with hints, plus EVERY single non-conforming mutation at EVERY "
    "position of the base datum: wrong Python type, out-of-range int/long (2^31, -2^31-1, 2^63, -2^63-1), bool for int, "
    "wrong fixed size, unknown enum symbol, non-string map key, non-sequence / str for array, non-mapping for map/record, "
    "missing required field, wrong '-type', unknown or mis-valued tuple hint, value matching no union branch) x "
    "raise_errors x strict x disable_tuple_notation. Four obligations per case: (a) validate(raise_errors=False) == "
    "reference conformance; (b) raise_errors=True raises ValidationError iff (a) is False and returns True otherwise; "
    "(c) accepted => schemaless_writer and the container writer encode it and it reads back equal to the reference "
    "normalisation; (d) rejected => Writer(validator=True).write raises and the pending buffer and the output stream are "
    "byte-identical to before the call (also after earlier accepted records). distinct_nontrivial = distinct (schema, "
    "datum, strict, tuple-notation) cases."
)
ASSUMPTIONS = [
    "float-typed leaves are restricted to values representable in the target width, as the property states",
    "bytearray under fixed and extra (non-schema) keys in records are outside the documented mapping and kept out of the alphabet",
    "pure-Python fastavro only (Cython absent)",
]
UNIT_TIMEOUT_S = 1200


class NotAValue:
    def __repr__(self):
        return "NotAValue()"


WRONG = {
    "null": [0, "", False],
    "boolean": [0, 1, "true", None],
    "int": [1 << 31, -(1 << 31) - 1, True, 1.5, "1", None, b"1"],
    "long": [1 << 63, -(1 << 63) - 1, True, 1.5, "1", None],
    "float": ["1.5", True, None, b"x", [1.0], __import__("decimal").Decimal("1.5")],
    "double": ["1.5", False, None, b"x", {"a": 1.0}, __import__("decimal").Decimal("0.1")],
    "bytes": ["str", 5, None, [1, 2], memoryview(b"ab"), memoryview(__import__("array").array("i", [1, 2, 3]))],  # the mapping names bytes and bytearray only
    "string": [b"bytes", 5, None, ["a"], memoryview(b"ab")],
    "enum": ["NOT_A_SYMBOL", 5, None, b"A", ""],
}


def mutants(node, defs, d, tuples=True, in_union=False):
    """Single non-conforming mutations of the conforming datum d at every position."""
    n = deref(node, defs)
    k = n["k"]
    out = []
    if "logical" in n:
        return out
    if k in WRONG:
        out += list(WRONG[k])
    elif k == "fixed":
        s = n["size"]
        out += [b"\x00" * (s + 1), "x" * s, 5, None]
        if s > 0:
            out.append(b"\x00" * (s - 1))
    elif k == "array":
        out += [5, None, {"a": 1}, "abc", {1, 2}, b"ab"]
        items = list(d)
        for i, x in enumerate(items):
            for m in mutants(n["items"], defs, x, tuples):
                out.append(items[:i] + [m] + items[i + 1:])
    elif k == "map":
        out += [5, None, [("a", 1)], "abc"]
        if d:
            k0 = next(iter(d))
            out.append({1: d[k0]})
            out.append({b"k": d[k0]})
            out.append({None: d[k0]})
        for kk, x in d.items():
            for m in mutants(n["values"], defs, x, tuples):
                out.append(dict(d, **{kk: m}))
    elif k == "record":
        out += [5, None, [1], "abc"]
        out.append(dict(d, **{"-type": "Wrong.Name"}))
        for f in n["fields"]:
            if f["name"] in d:
                if "default" not in f and not accepts_null(f["type"], defs):
                    out.append({kk: vv for kk, vv in d.items() if kk != f["name"]})
                for m in mutants(f["type"], defs, d[f["name"]], tuples):
                    out.append(dict(d, **{f["name"]: m}))
    elif k == "union":
        out.append(NotAValue())
        if tuples:
            out.append(("Unknown.Branch", d))
            for b in n["branches"]:
                bn = branch_name(b, defs)
                if not conform.conforms(b, defs, d, False, tuples):
                    out.append((bn, d))
        # mutate inside the branch the value conforms to, keeping it non-conforming to every branch
        for b in n["branches"]:
            if conform.conforms(b, defs, d, False, tuples):
                for m in mutants(b, defs, d, tuples, True):
                    out.append(m)
                break
    return out


def units(tier):
    return list(range(len(schema_list(tier))))


EXTRA = [
    {"type": "record", "name": "Outer", "fields": [
        {"name": "u", "type": [{"type": "record", "name": "Ra", "fields": [{"name": "x", "type": "int"}]},
                               {"type": "record", "name": "Rb", "fields": [{"name": "x", "type": "int"}]}]},
        {"name": "e", "type": ["null", {"type": "enum", "name": "En", "symbols": ["A", "B"]}, {"type": "fixed", "name": "Fx", "size": 1}]},
        {"name": "m", "type": ["null", {"type": "map", "values": "int"}, {"type": "array", "items": "string"}]}]},
    {"type": "record", "name": "Strict", "fields": [
        {"name": "req", "type": "int"}, {"name": "nullable", "type": ["null", "int"]}, {"name": "nullable_default", "type": ["null", "int"], "default": None},
        {"name": "dflt", "type": "string", "default": "d"}, {"name": "n", "type": "null"}]},
    {"type": "record", "name": "EnumDefaults", "fields": [
        {"name": "e", "type": {"type": "enum", "name": "Suit", "symbols": ["SPADES", "HEARTS"], "default": "SPADES"}},
        {"name": "e2", "type": ["null", "Suit"], "default": None}, {"name": "es", "type": {"type": "array", "items": "Suit"}, "default": []}]},
    {"type": "enum", "name": "TopSuit", "symbols": ["A", "B", "C"], "default": "B"},
    ["null", {"type": "record", "name": "AllDefaults", "fields": [{"name": "note", "type": "string", "default": ""}, {"name": "n", "type": ["null", "int"], "default": None}]},
     {"type": "record", "name": "AllDefaults2", "fields": [{"name": "reason", "type": "string", "default": ""}]}],
    {"type": "record", "name": "HoldsAllDefaults", "fields": [{"name": "u", "type": [
        {"type": "record", "name": "Created", "fields": [{"name": "note", "type": "string", "default": ""}]},
        {"type": "record", "name": "Deleted", "fields": [{"name": "reason", "type": "string", "default": ""}]}]}]},
    # a named type carrying a logical type, used again by name (field, union branch, array items)
    {"type": "record", "name": "Invoice", "fields": [
        {"name": "amount", "type": {"type": "fixed", "name": "Amount", "size": 8, "logicalType": "decimal", "precision": 12, "scale": 2}},
        {"name": "tax", "type": "Amount"}, {"name": "tip", "type": ["null", "Amount"]}, {"name": "parts", "type": {"type": "array", "items": "Amount"}},
        {"name": "day", "type": {"type": "int", "logicalType": "date"}}]},
    # a union inside a record that is itself reached through an un-hinted union (options must reach the inner union)
    {"type": "record", "name": "Doc", "fields": [{"name": "body", "type": ["null", {"type": "record", "name": "Body", "fields": [
        {"name": "tags", "type": ["string", {"type": "array", "items": "string"}]}, {"name": "m", "type": ["null", {"type": "map", "values": ["int", {"type": "array", "items": "int"}]}], "default": None}]}]}]},
    # two positions of the same record type (a datum may hold ONE Python object at both)
    {"type": "record", "name": "Person", "fields": [
        {"name": "home", "type": {"type": "record", "name": "Addr", "fields": [{"name": "street", "type": "string"}, {"name": "tags", "type": {"type": "array", "items": "string"}}]}},
        {"name": "work", "type": "Addr"}, {"name": "others", "type": {"type": "array", "items": "Addr"}}, {"name": "by_name", "type": {"type": "map", "values": "Addr"}}]},
    ["null"],
    # the null branch written in object form
    {"type": "record", "name": "ObjNull", "fields": [{"name": "u", "type": [{"type": "null"}, "string"]}, {"name": "v", "type": ["int", {"type": "null", "note": "n"}], "default": 1},
                                                   {"name": "w", "type": {"type": "array", "items": [{"type": "null"}, "long"]}}]},
    [{"type": "null"}, "double"],
    {"type": "record", "name": "BytesDefaults", "fields": [
        {"name": "k", "type": "int"}, {"name": "b", "type": "bytes", "default": "\u00ff\u0001"},
        {"name": "f", "type": {"type": "fixed", "name": "F2", "size": 2}, "default": "ab"}]},
]


def schema_list(tier):
    return family.schemas("quick") + EXTRA


def check(fa, res, raw, parsed, node, defs, d, seen, writer_state):
    kd = key(d) if not isinstance(d, NotAValue) else b"NAV"
    for strict in (False, True):
        for disable in (False, True):
            kk = (kd, strict, disable)
            if kk in seen:
                continue
            seen.add(kk)
            tuples = not disable
            info = {"schema": raw, "datum": d, "strict": strict, "disable_tuple_notation": disable}
            note_case(info)
            if not _representable(node, defs, d):
                continue
            res.evals += 1
            want = conform.conforms(node, defs, d, strict, tuples)
            # (a)
            try:
                got = fa.validate(d, parsed, raise_errors=False, strict=strict, disable_tuple_notation=disable)
            except Exception as e:
                got = f"raised {type(e).__name__}: {e}"
            if got is not want:
                tag = ":omitted-bytes-or-fixed-field-with-string-default" if (want and omits_bytes_field_with_string_default(node, defs, d)) else ""
                res.add(Violation("c10.validate", f"validate-{'accepts-nonconforming' if got is True else 'rejects-conforming' if got is False else 'raises'}{tag}",
                                  f"validate(..., raise_errors=False, strict={strict}, disable_tuple_notation={disable}) = {got!r}, reference conformance = {want} | {short(info, 500)}", info))
                continue
            # (b)
            from fastavro._validate_common import ValidationError

            try:
                r = fa.validate(d, copy.deepcopy(raw), raise_errors=True, strict=strict, disable_tuple_notation=disable)
                outcome = ("returned", r)
            except ValidationError:
                outcome = ("ValidationError", None)
            except Exception as e:
                outcome = (type(e).__name__, str(e)[:100])
            if want and outcome != ("returned", True) or (not want and outcome[0] != "ValidationError"):
                res.add(Violation("c10.raise-mode", f"raise-mode-disagrees:{outcome[0]}", f"raise_errors=True gave {outcome}, non-raising mode gave {want} | {short(info, 500)}", info))
            # validate_many over [d] and [good, d]: the same verdicts, in both modes
            for recs_, label_ in (([d], "alone"), ([writer_state["good"], d], "after-a-good-record")):
                try:
                    vm = fa.validation.validate_many(recs_, parsed, raise_errors=False, strict=strict, disable_tuple_notation=disable)
                except Exception as e:
                    vm = f"raised {type(e).__name__}"
                try:
                    vmr = ("returned", fa.validation.validate_many(recs_, parsed, raise_errors=True, strict=strict, disable_tuple_notation=disable))
                except ValidationError:
                    vmr = ("ValidationError", None)
                except Exception as e:
                    vmr = (type(e).__name__, str(e)[:80])
                good_ok = label_ == "alone" or writer_state.get("good_ok", {}).get(strict, True)
                want_many = want and good_ok
                if vm is not want_many or (want_many and vmr != ("returned", True)) or (not want_many and vmr[0] != "ValidationError"):
                    res.add(Violation("c10.validate-many", f"validate-many-disagrees:{label_}", f"validate_many({label_}) = {vm!r} / raising mode {vmr}, validate says {want} | {short(info, 400)}", info))
                    break
            if strict:
                continue
            if want:
                # (c) writers accept and round-trip
                try:
                    expected = conform.normalise(node, defs, d, None, tuples)
                except Exception:
                    continue
                try:
                    fo = io.BytesIO()
                    fa.schemaless_writer(fo, parsed, d, disable_tuple_notation=disable)
                    fo.seek(0)
                    back = fa.schemaless_reader(fo, parsed)
                    if not same(back, expected):
                        res.add(Violation("c10.accepted-writes", "accepted-roundtrip-differs", f"validate accepts, but the value reads back as {short(back, 200)} expected {short(expected, 200)} | {short(info, 400)}", info))
                except Exception as e:
                    res.add(Violation("c10.accepted-writes", f"accepted-but-writer-raises:{type(e).__name__}", f"validate accepts, schemaless_writer raises {type(e).__name__}: {e} | {short(info, 400)}", info))
                try:
                    fo = io.BytesIO()
                    fa.writer(fo, parsed, [d], validator=True, disable_tuple_notation=disable, sync_marker=b"V" * 16)
                    fo.seek(0)
                    back = list(fa.reader(fo))
                    if not (len(back) == 1 and same(back[0], expected)):
                        res.add(Violation("c10.accepted-writes", "accepted-container-differs", f"container with validator=True reads back {short(back, 200)} expected [{short(expected, 200)}] | {short(info, 400)}", info))
                except Exception as e:
                    res.add(Violation("c10.accepted-writes", f"accepted-but-container-raises:{type(e).__name__}", f"validate accepts, writer(validator=True) raises {type(e).__name__}: {e} | {short(info, 400)}", info))
            else:
                # (d) Writer(validator=True) rejects before emitting any byte of that record
                from fastavro._write_py import Writer

                for pre in (0, 1, 2, 3):
                    out = io.BytesIO()
                    w = Writer(out, parsed, validator=True, sync_marker=b"V" * 16, sync_interval=10 ** 9,
                               options={"disable_tuple_notation": disable})
                    if pre >= 2:
                        # the gate must also hold for a writer re-opened in append mode (schema None / the same schema)
                        try:
                            w.write(writer_state["good"])
                            w.flush()
                            out.seek(0, 2)
                            w = Writer(out, None if pre == 2 else parsed, validator=True, sync_interval=10 ** 9,
                                       options={"disable_tuple_notation": disable})
                        except Exception:
                            break
                    if pre == 1:
                        try:
                            w.write(writer_state["good"])
                        except Exception:
                            break
                    before = (out.getvalue(), w.io._fo.getvalue(), w.block_count)
                    try:
                        w.write(d)
                        raised = False
                    except Exception:
                        raised = True
                    after = (out.getvalue(), w.io._fo.getvalue(), w.block_count)
                    if not raised:
                        res.add(Violation("c10.rejected-gate", "rejected-but-validating-writer-accepts", f"validate rejects, Writer(validator=True).write accepted it | {short(info, 400)}", info))
                        break
                    if before != after:
                        res.add(Violation("c10.rejected-gate", "rejected-write-left-bytes", f"a rejected record changed the writer: pending {before[1].hex()} -> {after[1].hex()}, count {before[2]} -> {after[2]} | {short(info, 400)}", info))
                        break


def _representable(node, defs, d):
    """Float-typed leaves only with values the width can represent (overflowing ints for float/double are out of scope)."""
    n = deref(node, defs)
    k = n["k"]
    try:
        if k in ("float", "double"):
            return conform.representable(n, defs, d)
        if k == "array" and isinstance(d, (list, tuple)):
            return all(_representable(n["items"], defs, x) for x in d)
        if k == "map" and isinstance(d, dict):
            return all(_representable(n["values"], defs, x) for x in d.values())
        if k == "record" and isinstance(d, dict):
            return all(_representable(f["type"], defs, d[f["name"]]) for f in n["fields"] if f["name"] in d)
        if k == "union":
            v = d[1] if isinstance(d, tuple) and len(d) == 2 else d
            return all(_representable(b, defs, v) for b in n["branches"])
    except Exception:
        return True
    return True


def run_unit(i, tier):
    import fastavro as fa

    res = UnitResult()
    raw = schema_list(tier)[i]
    node, defs = names.resolve(raw)
    parsed = fa.parse_schema(copy.deepcopy(raw))
    good = alphabet.data_for(node, defs, 0)
    if not good:
        return res
    base = good[0][0]
    seen = set()
    ws = {"good": base, "good_ok": {st: conform.conforms(node, defs, base, st, True) for st in (False, True)}}
    conforming = [d for d, c in alphabet.data_for(node, defs, 1, hints=True, big=(tier == "thorough"))]
    if isinstance(raw, list) and any(isinstance(b, dict) and b.get("name") == "AllDefaults" for b in raw):
        conforming += [{}, {"-type": "AllDefaults2"}, {"-type": "AllDefaults"}, {"note": "x"}, {"reason": "y"}]
    if isinstance(raw, dict) and raw.get("name") == "HoldsAllDefaults":
        conforming += [{"u": {}}, {"u": {"-type": "Deleted"}}, {"u": {"-type": "Created"}}, {"u": ("Deleted", {})}]
    if isinstance(raw, dict) and raw.get("name") == "Person":
        addr = {"street": "s", "tags": ["t"]}
        tags = ["shared"]
        conforming += [{"home": addr, "work": addr, "others": [addr, addr], "by_name": {"a": addr, "b": addr}},
                       {"home": {"street": "a", "tags": tags}, "work": {"street": "b", "tags": tags}, "others": [], "by_name": {}}]
    if isinstance(raw, dict) and raw.get("name") == "Doc":
        # tuples that are plain sequences when tuple notation is disabled (and unknown hints when it is not)
        conforming += [{"body": {"tags": ("a", "b")}}, {"body": {"tags": ("only",)}}, {"body": {"tags": ("a", "b", "c")}}, {"body": {"tags": "s", "m": {"k": (1, 2)}}},
                       {"body": {"tags": ("string", "x")}}, {"body": {"tags": ("array", ["x"])}}]
    for d in conforming:
        check(fa, res, raw, parsed, node, defs, d, seen, ws)
    ms = mutants(node, defs, base)
    # mutations of a second, non-base datum as well (every union branch base)
    for d in conforming[1:40]:
        if isinstance(d, (dict, list)):
            ms += mutants(node, defs, d)[:60]
    res.stats["mutants"] += len(ms)
    for m in ms:
        check(fa, res, raw, parsed, node, defs, m, seen, ws)
    res.distinct = len(seen)
    res.sample({"schema": raw, "conforming": len(conforming), "mutants": len(ms)})
    return res


def replay(case):
    import fastavro as fa

    res = UnitResult()
    raw = case["schema"]
    node, defs = names.resolve(raw)
    parsed = fa.parse_schema(copy.deepcopy(raw))
    base = alphabet.data_for(node, defs, 0)[0][0]
    seen = set()
    check(fa, res, raw, parsed, node, defs, case["datum"], seen, {"good": base})
    return [v for v in res.violations if v["case"]["strict"] == case["strict"] and v["case"]["disable_tuple_notation"] == case["disable_tuple_notation"]] or res.violations
