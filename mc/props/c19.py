"""C19 — load_schema from per-type files is equivalent to parsing the same types
inlined at their first use."""
import copy
import io
import itertools
import json
import os
import shutil
import tempfile

from ..harness import UnitResult, Violation, short, note_case
from .. import alphabet
from ..values import same, key
from ..ref import names, conform, binary, canon

LEVEL = "exploration"
RULE = (
    "EVERY dependency DAG on <=3 (thorough 4) named types (root record; inner nodes records; sinks record/enum/fixed; every "
    "non-root node reachable) x namespace assignment {none, all 'a', mixed 'a'/'b'} x edge realisation: base = (record "
    "field, qualified name, used once) with <=2 edges deviating to any of {field, array items, map values, union branch} x "
    "{qualified, namespace-relative (where legal)} x {used once, used twice}; one file per type named <full name>.avsc in a "
    "scratch directory. Oracle: load_schema(root file) has the canonical form of, and encodes D_1 data identically to, the "
    "same types inlined at their first use in document order (reference inliner); load_schema_ordered over EVERY "
    "dependencies-first order agrees; with any ONE file removed (and, for a namespaced type, an unrelated null-namespace decoy file with the same short name present) "
    "an error naming exactly the missing type is raised; the first realisations are repeated with the repository files being "
    "symbolic links into separate directories, and with the full name spelled in \"name\" instead of a namespace attribute; a reference "
    "to a type whose name is too long to be a file name must be reported like any other missing type. "
    "distinct_nontrivial = distinct (graph, namespaces, realisation) repositories."
    ' Reference kinds include unions with the named type first and in the middle; straight chains of 2..33 (thorough ..100) per-file types.'
)
ASSUMPTIONS = [
    "first use = first reference in document order of the root, descending into a type where it is first used",
    "the scratch directory lives under the system temp directory only for the duration of a unit",
    "pure-Python fastavro only (Cython absent)",
]
UNIT_TIMEOUT_S = 1500
KINDS = ["field", "array", "map", "union", "union-first", "union-mid"]


def dags(n):
    """Edge sets over nodes 0..n-1 (i<j) in which every non-root node has an incoming edge."""
    pairs = [(i, j) for i in range(n) for j in range(i + 1, n)]
    out = []
    for r in range(len(pairs) + 1):
        for es in itertools.combinations(pairs, r):
            if all(any(e[1] == j for e in es) for j in range(1, n)):
                out.append(es)
    return out


def sink_kind_options(n, es):
    opts = []
    for j in range(n):
        if j == 0 or any(e[0] == j for e in es):
            opts.append(["record"])
        else:
            opts.append(["record", "enum", "fixed"])
    return list(itertools.product(*opts))


def ns_options(n):
    out = [tuple([""] * n), tuple(["a"] * n)]
    if n >= 2:
        out.append(tuple("a" if i % 2 == 0 else "b" for i in range(n)))
        out.append(tuple(["a"] + ["b.c"] * (n - 1)))
        # namespace parts starting with an underscore; a namespace that is the root's namespace plus another type's
        out.append(tuple(["_a._b"] + ["_c" if i % 2 == 0 else "_a._b" for i in range(n - 1)]))
        out.append(tuple(["com"] + ["com.shop" if i % 2 else "shop" for i in range(n - 1)]))
    return out


TNAMES = ["Data", "Items", "Tv", "Basic", "Extra"]
NAME_MODES = {"same-short-names": ["Data", "Items", "Items", "Items", "Items"], "underscore-names": ["Data", "_Items", "_Tv_", "__", "_a"]}  # names ending in characters of ".avsc" (suffix stripping must be exact)


def full(i, ns):
    return (ns[i] + "." if ns[i] else "") + TNAMES[i]


def realisations(es, ns, tier):
    """Per edge (kind, qualified?, twice?); base plus <=2 deviations."""
    opts = []
    for (i, j) in es:
        o = []
        for kind in KINDS:
            for qualified in (True, False):
                if not qualified and ns[i] != ns[j]:
                    continue  # a namespace-relative name only reaches the same namespace
                for twice in (False, True):
                    o.append((kind, qualified, twice))
        opts.append(o)
    base = tuple(o[0] for o in opts)
    out = [base]
    maxdev = 2 if (tier == "quick" or len(es) > 3) else 3
    idxs = range(len(es))
    for r in range(1, min(maxdev, len(es)) + 1):
        for which in itertools.combinations(idxs, r):
            for alt in itertools.product(*[opts[w][1:] for w in which]):
                cur = list(base)
                for w, a in zip(which, alt):
                    cur[w] = a
                out.append(tuple(cur))
    return out


def ref_name(i, j, ns, qualified):
    if qualified or ns[i] != ns[j]:
        return full(j, ns)
    return TNAMES[j]


def use(kind, name):
    if kind == "field":
        return name
    if kind == "array":
        return {"type": "array", "items": name}
    if kind == "map":
        return {"type": "map", "values": name}
    if kind == "union-first":
        return [name, "null"]  # the named type is not the last branch
    if kind == "union-mid":
        return ["null", name, "string"]
    return ["null", name]


def default_of_type(j, es, real, kinds):
    """A complete default value for per-file type j (records: every field, recursively through 'field' references)."""
    if kinds[j] == "enum":
        return "S%d" % j
    if kinds[j] == "fixed":
        return "\u0001" * (j + 1)
    out = {"own%d" % j: j}
    for (e, r) in zip(es, real):
        if e[0] != j:
            continue
        kind, qualified, twice = r
        out["e%d_%d" % e] = default_of_use(kind, e[1], es, real, kinds)
        if twice:
            out["e%d_%d_again" % e] = [] if kind != "array" else {}
    return out


def default_of_use(kind, j, es, real, kinds):
    if kind == "field" or kind == "union-first":
        return default_of_type(j, es, real, kinds)
    if kind == "array":
        return [default_of_type(j, es, real, kinds)]
    if kind == "map":
        return {"k": default_of_type(j, es, real, kinds)}
    return None  # ["null", X] and ["null", X, "string"]


def build_files(n, es, kinds, ns, real, spelling="attribute"):
    files = {}
    for i in range(n):
        d = {"type": kinds[i], "name": TNAMES[i]}
        if ns[i]:
            if spelling == "dotted-name":
                d["name"] = ns[i] + "." + TNAMES[i]  # the full name spelled in "name", no namespace attribute
            else:
                d["namespace"] = ns[i]
        # attribute text that looks like comments or globs to a careless pre-processor: it is JSON string content
        d["doc"] = "see http://example.org/%d//x /* not a comment */ logs/*.gz" % i
        if kinds[i] == "enum":
            d["symbols"] = ["S%d" % i, "Z"]
        elif kinds[i] == "fixed":
            d["size"] = i + 1
        else:
            fields = [{"name": "own%d" % i, "type": "int", "doc": "tmp/*/cache // %d" % i}]
            pairs = list(zip(es, real))
            if "reversed" in spelling:
                pairs.reverse()  # the reference fields in the opposite order: another type becomes the first use
            for (e, r) in pairs:
                if e[0] != i:
                    continue
                kind, qualified, twice = r
                nm = ref_name(e[0], e[1], ns, qualified)
                f = {"name": "e%d_%d" % e, "type": use(kind, nm), "doc": "*/ closing first, then /* opening"}
                if "with-defaults" in spelling:
                    f["default"] = default_of_use(kind, e[1], es, real, kinds)
                fields.append(f)
                if twice:
                    f2 = {"name": "e%d_%d_again" % e, "type": use("array" if kind != "array" else "map", nm)}
                    if "with-defaults" in spelling:
                        f2["default"] = [] if kind != "array" else {}
                    fields.append(f2)
            d["fields"] = fields
        if "errors" in spelling and i > 0 and d["type"] == "record":
            d["type"] = "error"  # the other spelling of a record
        files[full(i, ns)] = d
    return files


def inline_first_use(files, root):
    """The same types as one schema: definitions placed at their first use (document order)."""
    done = set()

    def walk(s, ns):
        if isinstance(s, list):
            return [walk(b, ns) for b in s]
        if isinstance(s, str):
            if s in ("null", "int", "string"):
                return s
            fn = s if "." in s else (ns + "." + s if ns else s)
            if fn in done:
                return fn
            return define(fn)
        if s.get("type") == "array":
            return dict(s, items=walk(s["items"], ns))
        if s.get("type") == "map":
            return dict(s, values=walk(s["values"], ns))
        raise AssertionError(s)

    def define(fn):
        done.add(fn)
        d = copy.deepcopy(files[fn])
        space = d.get("namespace", d["name"].rsplit(".", 1)[0] if "." in d["name"] else "")
        if d["type"] in ("record", "error"):
            d["fields"] = [dict(f, type=walk(f["type"], space)) for f in d["fields"]]
        return d

    return define(root)


def topo_orders(n, es, ns):
    """Every order listing dependencies first (root last)."""
    out = []
    for perm in itertools.permutations(range(n)):
        pos = {v: k for k, v in enumerate(perm)}
        if all(pos[j] < pos[i] for (i, j) in es):
            out.append([full(i, ns) for i in perm])
    return out


CHAIN_DEPTHS = {"quick": (2, 16, 17, 18, 19, 33), "thorough": (2, 16, 17, 18, 19, 33, 64, 65, 100)}


def check_chain(fa, res, tmpdir, depth, seen):
    """A straight chain of `depth` per-file types below the root (acyclic, each referring to the next): loading it equals
    the nested inline definition, however deep."""
    d = os.path.join(tmpdir, "chain%d" % depth)
    os.makedirs(d)
    for i in range(depth + 1):
        s = {"type": "record", "name": "Level%d" % i, "namespace": "deep", "fields": [{"name": "v", "type": "int"}]}
        if i < depth:
            s["fields"].append({"name": "next", "type": ["null", "deep.Level%d" % (i + 1)] if i % 2 else "Level%d" % (i + 1)})
        with open(os.path.join(d, "deep.Level%d.avsc" % i), "w") as f:
            json.dump(s, f)
    inl = None
    for i in range(depth, -1, -1):
        s = {"type": "record", "name": "Level%d" % i, "namespace": "deep", "fields": [{"name": "v", "type": "int"}]}
        if inl is not None:
            s["fields"].append({"name": "next", "type": ["null", inl] if i % 2 else inl})
        inl = s
    want = canon.canonical(names.resolve(inl))
    info = {"chain_depth": depth, "n": depth + 1, "layout": "chain"}
    seen.add("chain%d" % depth)
    res.evals += 1
    try:
        got = canon_of(fa, fa.schema.load_schema(os.path.join(d, "deep.Level0.avsc")))
    except Exception as e:
        res.add(Violation("c19.load", f"load-raised:{type(e).__name__}:chain", f"load_schema on an acyclic chain of {depth} nested per-file types raised {type(e).__name__}: {str(e)[:200]}", info))
        return
    if got != want:
        res.add(Violation("c19.canonical", "canonical-form-differs:chain", f"chain of {depth}: canonical form differs from the inline definition", info))


def units(tier):
    us = [("chain", k, 0) for k in CHAIN_DEPTHS[tier]]
    for n in ((1, 2, 3) if tier == "quick" else (1, 2, 3, 4)):
        for gi, es in enumerate(dags(n)):
            for ki, kinds in enumerate(sink_kind_options(n, es)):
                us.append((n, gi, ki))
    if tier == "quick":
        # four types: every graph and kind assignment, but only the base realisation and its first deviations
        for gi, es in enumerate(dags(4)):
            for ki, kinds in enumerate(sink_kind_options(4, es)):
                us.append(("four", gi, ki))
    return us


def canon_of(fa, schema):
    return fa.schema.to_parsing_canonical_form(schema)


def check_repo(fa, res, tmpdir, n, es, kinds, ns, real, seen, tier, layout="plain"):
    if layout in NAME_MODES:
        # other type names for this repository: the same short name in different namespaces / names starting with '_'
        global TNAMES
        if layout == "same-short-names" and len(set(ns[1:])) != len(ns[1:]):
            return
        saved_names, TNAMES = TNAMES, NAME_MODES[layout]
        try:
            return _check_repo(fa, res, tmpdir, n, es, kinds, ns, real, seen, tier, layout)
        finally:
            TNAMES = saved_names
    return _check_repo(fa, res, tmpdir, n, es, kinds, ns, real, seen, tier, layout)


def _check_repo(fa, res, tmpdir, n, es, kinds, ns, real, seen, tier, layout="plain"):
    from fastavro._schema_common import UnknownType
    from fastavro.repository.base import SchemaRepositoryError

    files = build_files(n, es, kinds, ns, real, layout if layout in ("dotted-name", "with-defaults", "with-defaults-reversed", "reversed", "errors", "errors-reversed") else "attribute")
    root = full(0, ns)
    ident = json.dumps([n, es, kinds, ns, real, layout])
    if ident in seen:
        return
    seen.add(ident)
    info = {"n": n, "edges": es, "kinds": kinds, "namespaces": ns, "realisation": real, "files": files, "layout": layout}
    note_case(info)
    d = os.path.join(tmpdir, "repo")
    store = os.path.join(tmpdir, "store")
    for x in (d, store):
        if os.path.exists(x):
            shutil.rmtree(x)
        os.makedirs(x)
    for k, (fn, s) in enumerate(files.items()):
        if layout == "symlinks":
            # the repository directory holds symbolic links to files kept in separate directories
            sub = os.path.join(store, "d%d" % k)
            os.makedirs(sub)
            with open(os.path.join(sub, "blob%d.json" % k), "w") as f:
                json.dump(s, f)
            os.symlink(os.path.join(sub, "blob%d.json" % k), os.path.join(d, fn + ".avsc"))
        else:
            with open(os.path.join(d, fn + ".avsc"), "w") as f:
                json.dump(s, f)
    inlined = inline_first_use(files, root)
    node, defs = names.resolve(inlined)
    want_canon = canon.canonical((node, defs))
    res.evals += 1
    try:
        loaded = fa.schema.load_schema(os.path.join(d, root + ".avsc"))
    except Exception as e:
        res.add(Violation("c19.load", f"load-raised:{type(e).__name__}", f"load_schema raised {type(e).__name__}: {e} | {short(info, 600)}", info))
        return
    try:
        got_canon = canon_of(fa, loaded)
    except Exception as e:
        got_canon = f"raised {type(e).__name__}: {e}"
    if got_canon != want_canon:
        res.add(Violation("c19.canonical", "canonical-form-differs", f"load_schema canonical form {got_canon!r} != inlined-at-first-use {want_canon!r} | {short(info, 400)}", info))
        return
    if layout == "plain":
        # the same file named the other ways a caller may name it: a bare name relative to the working directory, "./name"
        here = os.getcwd()
        try:
            os.chdir(d)
            for spelled in (root + ".avsc", "./" + root + ".avsc", os.path.join("..", "repo", root + ".avsc")):
                res.evals += 1
                try:
                    c3 = canon_of(fa, fa.schema.load_schema(spelled))
                except Exception as e:
                    c3 = f"raised {type(e).__name__}: {e}"
                if c3 != want_canon:
                    res.add(Violation("c19.load", "path-spelling-differs", f"load_schema({spelled!r}) from inside the directory -> {c3[:200]!r} | {short(info, 300)}", dict(info, path_spelling=spelled)))
                    break
        finally:
            os.chdir(here)
        # the other documented call style: the root given by NAME together with an explicit repository
        res.evals += 1
        try:
            from fastavro.repository.flat_dict import FlatDictRepository

            c4 = canon_of(fa, fa.schema.load_schema(root, repo=FlatDictRepository(d)))
        except Exception as e:
            c4 = f"raised {type(e).__name__}: {e}"
        if c4 != want_canon:
            res.add(Violation("c19.load", "explicit-repo-differs", f"load_schema({root!r}, repo=FlatDictRepository(dir)) -> {c4[:200]!r} | {short(info, 300)}", dict(info, path_spelling="explicit-repo")))
    data = [x for x, c in alphabet.data_for(node, defs, 1, hints=False, big=False)][:12]
    for x in data:
        res.evals += 1
        try:
            v, idx = conform.plan(node, defs, x)
            want = binary.encode(node, defs, v, conform.Indices(idx))
            fo = io.BytesIO()
            fa.schemaless_writer(fo, loaded, copy.deepcopy(x))
            if fo.getvalue() != want:
                res.add(Violation("c19.encoding", "encoding-differs", f"{short(x, 150)} encodes to {fo.getvalue().hex()} under the loaded schema, {want.hex()} under the inlined one | {short(info, 300)}", info))
                break
            fo.seek(0)
            back = fa.schemaless_reader(fo, loaded)
            if not same(back, v):
                res.add(Violation("c19.encoding", "decoding-differs", f"{short(back, 150)} != {short(v, 150)} | {short(info, 300)}", info))
                break
        except Exception as e:
            res.add(Violation("c19.encoding", f"encoding-raised:{type(e).__name__}", f"{type(e).__name__}: {e} for {short(x, 150)} | {short(info, 300)}", info))
            break
    # ordered loading, every dependencies-first order
    for order in topo_orders(n, es, ns):
        res.evals += 1
        try:
            lo = fa.schema.load_schema_ordered([os.path.join(d, fn + ".avsc") for fn in order])
            c2 = canon_of(fa, lo)
        except Exception as e:
            c2 = f"raised {type(e).__name__}: {e}"
        if c2 != want_canon:
            res.add(Violation("c19.ordered", "ordered-differs", f"load_schema_ordered({order}) -> {c2!r}, expected {want_canon!r} | {short(info, 300)}", dict(info, order=order)))
            break
    # a reference to a type that has no file, under a name too long to be a file name at all
    if layout == "plain" and real == tuple(("field", True, False) for _ in es):
        res.evals += 1
        longname = "Missing" + "x" * 260
        root_def = copy.deepcopy(files[root])
        root_def["fields"] = root_def["fields"] + [{"name": "gone", "type": longname if not ns[0] else ns[0] + "." + longname}]
        with open(os.path.join(d, root + ".avsc"), "w") as f:
            json.dump(root_def, f)
        want_name = longname if not ns[0] else ns[0] + "." + longname
        try:
            fa.schema.load_schema(os.path.join(d, root + ".avsc"))
            outcome = ("no error", None)
        except UnknownType as e:
            outcome = ("UnknownType", e.name)
        except SchemaRepositoryError as e:
            outcome = ("SchemaRepositoryError", str(e))
        except Exception as e:
            outcome = (type(e).__name__, str(e)[:100])
        finally:
            with open(os.path.join(d, root + ".avsc"), "w") as f:
                json.dump(files[root], f)
        if not ((outcome[0] == "UnknownType" and outcome[1] == want_name) or (outcome[0] == "SchemaRepositoryError" and want_name in outcome[1])):
            res.add(Violation("c19.missing", f"missing-file-not-named:{outcome[0]}:long-name", f"reference to a type without file (name of 267 characters): {outcome[0]} {str(outcome[1])[:60]}; the error must name it | {short(info, 200)}", dict(info, missing=want_name)))
    # any one file missing
    for miss in files:
        res.evals += 1
        p = os.path.join(d, miss + ".avsc")
        os.rename(p, p + ".gone")
        decoy = None
        if "." in miss and not os.path.lexists(os.path.join(d, miss.rsplit(".", 1)[1] + ".avsc")):
            # an unrelated type of the null namespace with the same short name: it is NOT the missing type
            decoy = os.path.join(d, miss.rsplit(".", 1)[1] + ".avsc")
            with open(decoy, "w") as f:
                json.dump({"type": "enum", "name": miss.rsplit(".", 1)[1], "symbols": ["DECOY"]}, f)
        try:
            try:
                fa.schema.load_schema(os.path.join(d, root + ".avsc"))
                outcome = ("no error", None)
            except UnknownType as e:
                outcome = ("UnknownType", e.name)
            except SchemaRepositoryError as e:
                outcome = ("SchemaRepositoryError", str(e))
            except Exception as e:
                outcome = (type(e).__name__, str(e))
        finally:
            os.rename(p + ".gone", p)
            if decoy:
                os.remove(decoy)
        ok = (outcome[0] == "UnknownType" and outcome[1] == miss) or (outcome[0] == "SchemaRepositoryError" and f"'{miss}'" in outcome[1])
        if not ok:
            res.add(Violation("c19.missing", f"missing-file-not-named:{outcome[0]}", f"with {miss}.avsc removed: {outcome}; the error must name {miss} | {short(info, 300)}", dict(info, missing=miss)))
            break


def run_unit(unit, tier):
    import fastavro as fa
    import fastavro.schema  # noqa

    res = UnitResult()
    n, gi, ki = unit
    if n == "chain":
        seen = set()
        tmpdir = tempfile.mkdtemp(prefix="verif-c19-")
        try:
            check_chain(fa, res, tmpdir, gi, seen)
        finally:
            shutil.rmtree(tmpdir, ignore_errors=True)
        res.distinct = len(seen)
        res.sample({"chain_depth": gi})
        return res
    few = n == "four"
    if few:
        n = 4
    es = dags(n)[gi]
    kinds = sink_kind_options(n, es)[ki]
    seen = set()
    tmpdir = tempfile.mkdtemp(prefix="verif-c19-")
    try:
        for ns in ns_options(n):
            reals = realisations(es, ns, tier)
            if few:
                reals = reals[:1] + reals[1:200:23]
            for real in reals:
                check_repo(fa, res, tmpdir, n, es, kinds, ns, real, seen, tier)
            for real in reals[:3]:
                check_repo(fa, res, tmpdir, n, es, kinds, ns, real, seen, tier, layout="symlinks")
            if any(ns):
                for real in reals[:40:3]:
                    check_repo(fa, res, tmpdir, n, es, kinds, ns, real, seen, tier, layout="dotted-name")
            if es:
                for real in reals[:60:2]:
                    check_repo(fa, res, tmpdir, n, es, kinds, ns, real, seen, tier, layout="with-defaults")
                for real in reals[:40:2]:
                    check_repo(fa, res, tmpdir, n, es, kinds, ns, real, seen, tier, layout="underscore-names")
                if n >= 3:
                    for real in reals[:120]:
                        check_repo(fa, res, tmpdir, n, es, kinds, ns, real, seen, tier, layout="same-short-names")
            if any(kinds[i] == "record" for i in range(1, n)):
                for real in reals[:60:2]:
                    check_repo(fa, res, tmpdir, n, es, kinds, ns, real, seen, tier, layout="errors")
                for real in reals[:30:3]:
                    check_repo(fa, res, tmpdir, n, es, kinds, ns, real, seen, tier, layout="errors-reversed")
            if len(es) >= 2:
                for real in reals[:60:2]:
                    check_repo(fa, res, tmpdir, n, es, kinds, ns, real, seen, tier, layout="with-defaults-reversed")
                for real in reals[:90:3]:
                    check_repo(fa, res, tmpdir, n, es, kinds, ns, real, seen, tier, layout="reversed")
    finally:
        shutil.rmtree(tmpdir, ignore_errors=True)
    res.distinct = len(seen)
    res.sample({"types": n, "edges": list(es), "kinds": list(kinds), "repositories": len(seen)})
    return res


def replay(case):
    import fastavro as fa
    import fastavro.schema  # noqa

    res = UnitResult()
    tmpdir = tempfile.mkdtemp(prefix="verif-c19-")
    try:
        if case.get("layout") == "chain":
            check_chain(fa, res, tmpdir, case["chain_depth"], set())
            return res.violations
        check_repo(fa, res, tmpdir, case["n"], tuple(map(tuple, case["edges"])), tuple(case["kinds"]), tuple(case["namespaces"]),
                   tuple(map(tuple, case["realisation"])), set(), "quick", layout=case.get("layout", "plain"))
    finally:
        shutil.rmtree(tmpdir, ignore_errors=True)
    return res.violations
