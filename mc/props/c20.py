"""C20 — generate_one / generate_many always produce conforming data
(model checking of the environment: the library's random source is scripted
and every sequence of answers within a deviation bound is explored)."""
import copy
import io
import uuid as uuidmod

from ..harness import UnitResult, Violation, short, note_case
from .. import family, choice
from ..values import same, key
from ..ref import names, conform, logical

LEVEL = "model_checking"
RULE = (
    "fastavro.utils.random and .uuid are rebound to a scripted source whose every call is a choice point: randint(a,b) in "
    "{a, b, mid, 0, 1, -1 (when in range)}, random() in {0.0, 0.5, 1-2^-53}, getrandbits(n) in {0, 2^n-1, 0xAA.. pattern}, "
    "choices() in {all-first, all-last}, uuid4 in three values. For every schema of the family (depth<=2), every supported "
    "logical type, by-name references and recursion through union/array/map, EVERY execution of generate_many(schema,1) "
    "with at most b non-default answers is run (b=2 quick, 3 thorough; horizon 5000 draws); n in {0,2,3} is run for the "
    "default and single-deviation answers. Oracle: exactly n values; each passes the reference conformance AND validate; "
    "schemaless and container writers accept it and it reads back equal to the reference normalisation (bytes/fixed "
    "decimals: read back without error). states = distinct executions (answer sequences), transitions = draws answered."
)
ASSUMPTIONS = [
    "the library draws randomness only through fastavro.utils.random / .uuid (module attributes rebound by the harness); a draw through another path would show up as a replay divergence or as an unexplored constant",
    "answer alphabets per call are the extremes, the midpoint and small values; values strictly inside the ranges are represented by the midpoint only",
    "pure-Python fastavro only (Cython absent)",
]
UNIT_TIMEOUT_S = 1500
HORIZON = 200000


def doomed_recursion(node, defs):
    """True when some record can reach itself through record fields, array items
    and map values only (no union on the way): the generator, which always emits
    10 items per array/map, has no finite value to produce."""
    from ..ref.names import deref

    def reach(n, target, seen):
        n2 = deref(n, defs)
        k = n2["k"]
        if k == "record":
            if n2["name"] == target and seen:
                return True
            if n2["name"] in seen:
                return False
            seen = seen | {n2["name"]}
            return any(reach(f["type"], target, seen) for f in n2["fields"])
        if k == "array":
            return reach(n2["items"], target, seen or {"_"})
        if k == "map":
            return reach(n2["values"], target, seen or {"_"})
        return False

    return any(reach(d, name, set()) for name, d in defs.items() if d["k"] == "record")


FLIP = [False]  # per unit: take the LAST alternative as the default answer of randint (see probe_default_terminates)


class _ProbeTooLong(Exception):
    pass


class _Probe:
    """A chooser that always answers 0 and gives up after 4000 draws."""

    def __init__(self):
        self.n = 0
        self.prefix = ()
        self.choices = []

    def choose(self, label, n):
        self.n += 1
        if self.n > 4000:
            raise _ProbeTooLong()
        return 0


def probe_default_terminates(u, parsed):
    """Does generation terminate when every draw takes the default answer?  For a record that refers to itself through a
    union the all-first-alternative script never ends when the self-reference is the union's FIRST branch (an outcome of
    probability zero for a fair source); the exploration is then centred on the all-last-alternative script instead."""
    saved = (u.random, u.uuid)
    try:
        u.random, u.uuid = ScriptedRandom(_Probe()), ScriptedUuid(_Probe())
        u.generate_one(parsed)
        return True
    except (_ProbeTooLong, RecursionError):
        return False
    except Exception:
        return True  # other failures are the exploration's business
    finally:
        u.random, u.uuid = saved


class ScriptedRandom:
    def __init__(self, ch):
        self.ch = ch

    def randint(self, a, b):
        opts = []
        for v in ((b, a, (a + b) // 2, 0, 1, -1) if FLIP[0] else (a, b, (a + b) // 2, 0, 1, -1)):
            if a <= v <= b and v not in opts:
                opts.append(v)
        return opts[self.ch.choose(f"randint({a},{b})", len(opts))]

    def random(self):
        return (0.0, 0.5, 1.0 - 2.0 ** -53)[self.ch.choose("random", 3)]

    def getrandbits(self, n):
        opts = [0, (1 << n) - 1, int("a" * ((n + 3) // 4), 16) & ((1 << n) - 1)] if n else [0]
        return opts[self.ch.choose(f"getrandbits({n})", len(opts))]

    def choices(self, population, k=1, **kw):
        c = self.ch.choose("choices", 2)
        return [population[0 if c == 0 else -1]] * k

    def randrange(self, start, stop=None, step=1):
        if stop is None:
            start, stop = 0, start
        if step != 1 or stop <= start:
            import random as _r

            return _r.Random(0).randrange(start, stop, step)  # raises ValueError on an empty range like the real one
        return self.randint(start, stop - 1)

    def choice(self, seq):
        if not seq:
            raise IndexError("Cannot choose from an empty sequence")
        return seq[self.randint(0, len(seq) - 1)]

    def uniform(self, a, b):
        return (a, b, (a + b) / 2)[self.ch.choose(f"uniform({a},{b})", 3)]

    def randbytes(self, n):
        return self.getrandbits(n * 8).to_bytes(n, "little")

    def __getattr__(self, name):
        raise AssertionError(f"unscripted random.{name} used by fastavro.utils")


UUIDS = [uuidmod.UUID(int=0), uuidmod.UUID(int=(1 << 128) - 1), uuidmod.UUID("12345678-1234-4234-8234-123456789abc")]


class ScriptedUuid:
    UUID = uuidmod.UUID

    def __init__(self, ch):
        self.ch = ch

    def uuid4(self):
        return UUIDS[self.ch.choose("uuid4", 3)]


def logical_schemas():
    lt = [
        {"type": "int", "logicalType": "date"}, {"type": "int", "logicalType": "time-millis"}, {"type": "long", "logicalType": "time-micros"},
        {"type": "long", "logicalType": "timestamp-millis"}, {"type": "long", "logicalType": "timestamp-micros"},
        {"type": "long", "logicalType": "local-timestamp-millis"}, {"type": "long", "logicalType": "local-timestamp-micros"},
        {"type": "string", "logicalType": "uuid"}, {"type": "bytes", "logicalType": "decimal", "precision": 30, "scale": 2},
        {"type": "fixed", "name": "FD", "size": 4, "logicalType": "decimal", "precision": 9, "scale": 0},
        {"type": "int", "logicalType": "unknown-logical"},
        # annotations that do not apply to the underlying type must be ignored (the value stays a plain int/long/string)
        {"type": "int", "logicalType": "timestamp-millis"}, {"type": "int", "logicalType": "timestamp-micros"}, {"type": "int", "logicalType": "time-micros"},
        {"type": "int", "logicalType": "local-timestamp-millis"}, {"type": "long", "logicalType": "date"}, {"type": "long", "logicalType": "time-millis"},
        {"type": "string", "logicalType": "date"}, {"type": "bytes", "logicalType": "uuid"}, {"type": "int", "logicalType": "decimal", "precision": 4},
    ]
    out = list(lt)
    out.append({"type": "record", "name": "AllLogical", "fields": [{"name": "f%d" % i, "type": copy.deepcopy(t)} for i, t in enumerate(lt)]})
    out.append(["null", {"type": "int", "logicalType": "date"}, {"type": "string", "logicalType": "uuid"}])
    out.append({"type": "map", "values": {"type": "long", "logicalType": "timestamp-micros"}})
    return out


def shape_schemas():
    """Shapes outside the shared family: long chains of by-name references (not recursive), and named types whose names
    contain or end in the specification's type words."""
    out = []
    for depth in (34, 48):
        # a top-level union [T0, T1 -> T0, ..., T<depth> -> T<depth-1> -> ...]: each branch refers to its predecessor BY NAME,
        # so drawing branch i follows i name hops (every i is one alternative of a single choice)
        branches = [{"type": "record", "name": "T0", "fields": [{"name": "v", "type": "int"}]}]
        for i in range(1, depth + 1):
            branches.append({"type": "record", "name": "T%d" % i, "fields": [{"name": "next", "type": "T%d" % (i - 1)}]})
        out.append(branches)
    # a record that refers to itself through a union whose FIRST branch is the self-reference
    out.append({"type": "record", "name": "Node", "fields": [{"name": "value", "type": "int"}, {"name": "next", "type": ["Node", "null"]}]})
    for nm in ("tagged_union", "credit_union", "union", "error_union", "my_record", "subarray", "bitmap", "prefixed", "enumeration"):
        k = {"type": "record", "name": nm, "namespace": "demo", "fields": [{"name": "x", "type": "int"}]}
        out.append({"type": "record", "name": "Holder_" + nm, "namespace": "demo", "fields": [
            {"name": "a", "type": k}, {"name": "b", "type": nm}, {"name": "c", "type": ["null", "demo." + nm]}, {"name": "d", "type": {"type": "array", "items": nm}},
            {"name": "e", "type": {"type": "map", "values": nm}}]})
    return out


def schema_list(tier):
    return family.schemas("quick") + logical_schemas() + shape_schemas()


TWINS = [
    ({"type": "record", "name": "R", "namespace": "tw", "fields": [{"name": "a", "type": {"type": "record", "name": "X", "fields": [{"name": "x", "type": "int"}]}}, {"name": "b", "type": "X"},
                                                                   {"name": "e", "type": {"type": "enum", "name": "E", "symbols": ["A", "B"]}}, {"name": "e2", "type": ["null", "E"]}]},
     {"type": "record", "name": "R", "namespace": "tw", "fields": [{"name": "a", "type": {"type": "record", "name": "X", "fields": [{"name": "y", "type": "string"}, {"name": "z", "type": "boolean"}]}}, {"name": "b", "type": "X"},
                                                                   {"name": "e", "type": {"type": "enum", "name": "E", "symbols": ["Q"]}}, {"name": "e2", "type": ["null", "E"]}]}),
    ({"type": "array", "items": {"type": "fixed", "name": "F", "size": 2}}, {"type": "map", "values": {"type": "fixed", "name": "F", "size": 5}}),
    # equal canonical forms, different logical annotations
    ({"type": "record", "name": "Event", "fields": [{"name": "day", "type": "int"}, {"name": "at", "type": "long"}, {"name": "id", "type": "string"}]},
     {"type": "record", "name": "Event", "fields": [{"name": "day", "type": {"type": "int", "logicalType": "date"}}, {"name": "at", "type": {"type": "long", "logicalType": "time-micros"}},
                                                      {"name": "id", "type": {"type": "string", "logicalType": "uuid"}}]}),
    # a generation that cannot end (recursion through an array) followed by an ordinary list over the same type name
    ({"type": "record", "name": "Node", "fields": [{"name": "children", "type": {"type": "array", "items": "Node"}}]},
     {"type": "record", "name": "Node", "fields": [{"name": "value", "type": "int"}, {"name": "next", "type": ["null", "Node"]}]}),
]


def units(tier):
    return list(range(len(schema_list(tier)))) + [("interleave", t, o) for t in range(len(TWINS)) for o in (0, 1)]


def run_interleaved(unit, tier):
    """Two live generate_many generators over schemas that define the same names
    differently, advanced alternately; every value must conform to its own schema."""
    import fastavro as fa
    import fastavro.utils as u

    res = UnitResult()
    _, t, o = unit
    pair = TWINS[t] if o == 0 else TWINS[t][::-1]
    resolved = [names.resolve(s) for s in pair]
    parsed = [fa.parse_schema(copy.deepcopy(s)) for s in pair]
    saved = (u.random, u.uuid)
    for forms in (("raw", "raw"), ("parsed", "raw"), ("raw", "parsed"), ("parsed", "parsed")):
        for order in ([0, 1, 0, 1, 0, 1], [0, 0, 1, 0, 1, 1], [0, 1, 1, 0, 0, 1]):
            def run(ch):
                u.random, u.uuid = ScriptedRandom(ch), ScriptedUuid(ch)
                info = {"schema": pair[0], "other": pair[1], "forms": forms, "order": order, "n": "interleaved"}
                note_case(info)
                try:
                    gens = [u.generate_many(copy.deepcopy(pair[i]) if forms[i] == "raw" else parsed[i], 3) for i in (0, 1)]
                    for which in order:
                        node, defs = resolved[which]
                        if doomed_recursion(node, defs):
                            # the recorded finding: this generation never ends; what matters here is what it leaves behind
                            try:
                                next(gens[which])
                            except (RecursionError, choice.Horizon):
                                gens[which] = u.generate_many(copy.deepcopy(pair[which]), 3)
                            continue
                        v = next(gens[which])
                        res.evals += 1
                        node, defs = resolved[which]
                        if not conform.conforms(node, defs, v):
                            res.add(Violation("c20.interleaved", "interleaved-generators-not-conforming",
                                              f"value {short(v, 200)} pulled from the generator of schema #{which} does not conform to it | {short(info, 400)}", dict(info, answers=list(ch.choices))))
                        else:
                            try:
                                bfo = io.BytesIO()
                                fa.schemaless_writer(bfo, parsed[which], v)
                                fa.schemaless_reader(io.BytesIO(bfo.getvalue()), parsed[which])
                            except Exception as e:
                                res.add(Violation("c20.interleaved", f"interleaved-rejected:{type(e).__name__}", f"{e} | {short(info, 300)}", dict(info, answers=list(ch.choices))))
                finally:
                    u.random, u.uuid = saved
                res.transitions += len(ch.choices)

            n, _ = choice.explore(run, 1, horizon=HORIZON, max_executions=5000)
            res.states += n
    res.distinct = res.states
    res.stats["traces_validated"] += res.states
    res.sample({"interleaved": [pair[0], pair[1]]})
    return res


def has_decimal(s):
    import json

    return '"decimal"' in json.dumps(s)


def strict_writes(fa, res, raw, parsed, v, info):
    """Generated values name every field and nothing else, so the writers' strict options accept them too."""
    for opt in ({"strict": True}, {"strict_allow_default": True}):
        try:
            fa.schemaless_writer(io.BytesIO(), parsed, copy.deepcopy(v), **opt)
            fo = io.BytesIO()
            fa.writer(fo, parsed, [copy.deepcopy(v)], sync_marker=b"g" * 16, **opt)
        except Exception as e:
            res.add(Violation("c20.accepted", f"generated-rejected-under-{'+'.join(opt)}:{type(e).__name__}", f"generated value {short(v, 200)} is rejected by the writers with {opt}: {type(e).__name__}: {str(e)[:120]} | {short(raw, 300)}", info))
            return


def check_value(fa, res, raw, parsed, node, defs, v, info):
    strict_writes(fa, res, raw, parsed, v, info)
    ok_ref = conform.conforms(node, defs, v)
    if not ok_ref:
        res.add(Violation("c20.conform", "generated-not-conforming", f"generated value {short(v, 300)} does not conform (reference) | {short(info, 400)}", info))
        return
    try:
        okv = fa.validate(v, parsed, raise_errors=False)
    except Exception as e:
        okv = f"raised {type(e).__name__}: {e}"
    if okv is not True:
        res.add(Violation("c20.validate", "generated-fails-validate", f"validate({short(v, 300)}) = {okv!r} | {short(info, 400)}", info))
    try:
        expected = conform.normalise(node, defs, v)
    except Exception as e:
        res.add(Violation("c20.normalise", f"reference-cannot-normalise:{type(e).__name__}", f"{e} | {short(info, 400)}", info))
        return
    skip_eq = has_decimal(raw)
    fo = io.BytesIO()
    try:
        fa.schemaless_writer(fo, parsed, v)
        fo.seek(0)
        got = fa.schemaless_reader(fo, parsed)
        if not skip_eq and not same(got, expected):
            res.add(Violation("c20.roundtrip", "generated-roundtrip-differs", f"generated {short(v, 200)} read back as {short(got, 200)}, expected {short(expected, 200)} | {short(info, 300)}", info))
    except Exception as e:
        res.add(Violation("c20.schemaless", f"generated-rejected:{type(e).__name__}", f"schemaless write/read of generated {short(v, 300)} raised {type(e).__name__}: {e} | {short(info, 300)}", info))
    fo = io.BytesIO()
    try:
        fa.writer(fo, parsed, [v], sync_marker=b"G" * 16)
        fo.seek(0)
        got = list(fa.reader(fo))
        if not skip_eq and not (len(got) == 1 and same(got[0], expected)):
            res.add(Violation("c20.container", "generated-container-differs", f"container read back {short(got, 200)}, expected [{short(expected, 200)}] | {short(info, 300)}", info))
    except Exception as e:
        res.add(Violation("c20.container", f"generated-container-rejected:{type(e).__name__}", f"container write/read of generated {short(v, 300)} raised {type(e).__name__}: {e} | {short(info, 300)}", info))


def run_unit(i, tier):
    import fastavro as fa
    import fastavro.utils as u

    if isinstance(i, tuple):
        return run_interleaved(i, tier)
    res = UnitResult()
    raw = schema_list(tier)[i]
    node, defs = names.resolve(raw)
    parsed = fa.parse_schema(copy.deepcopy(raw))
    seen_values = set()
    saved = (u.random, u.uuid)
    info0 = {"schema": raw}
    FLIP[0] = False
    if not doomed_recursion(node, defs) and not probe_default_terminates(u, parsed):
        FLIP[0] = True
        if not probe_default_terminates(u, parsed):
            FLIP[0] = False  # neither script terminates: let the exploration report it
        else:
            res.stats["schemas_explored_around_the_last_alternative_script"] += 1

    def run_n(n, prefix_holder):
        def run(ch):
            u.random, u.uuid = ScriptedRandom(ch), ScriptedUuid(ch)
            info = dict(info0, n=n)
            note_case(info)
            try:
                import itertools

                vals = list(itertools.islice(u.generate_many(copy.deepcopy(raw) if n != 1 else parsed, n), n + 3))
            except choice.Horizon as e:
                res.add(Violation("c20.horizon", "generation-does-not-terminate", f"{e} | {short(info, 300)}", dict(info, answers=list(ch.choices))))
                return
            except RecursionError as e:
                tag = "record-recursive-through-array-or-map" if doomed_recursion(node, defs) else "other"
                res.add(Violation("c20.generate", f"generate-raised:RecursionError:{tag}", f"generate_many raised RecursionError | {short(info, 300)}", dict(info, answers=list(ch.choices))))
                return
            except (choice.ReplayDivergence, AssertionError):
                raise
            except Exception as e:
                res.add(Violation("c20.generate", f"generate-raised:{type(e).__name__}", f"generate_many raised {type(e).__name__}: {e} | {short(info, 300)}", dict(info, answers=list(ch.choices))))
                return
            finally:
                u.random, u.uuid = saved
            res.evals += 1
            res.transitions += len(ch.choices)
            info = dict(info, answers=list(ch.choices))
            if len(vals) != n:
                res.add(Violation("c20.count", "wrong-count", f"generate_many(.., {n}) yielded {len(vals)} values | {short(info, 300)}", info))
            for v in vals:
                kv = key(v)
                if kv in seen_values:
                    continue
                seen_values.add(kv)
                check_value(fa, res, raw, parsed, node, defs, v, info)

        return run

    # deviation bound from the length of the default execution (number of draws)
    probe = choice.Chooser([], HORIZON)
    run_n(1, None)(probe)
    draws = len(probe.choices)
    if tier == "quick":
        bound = 2 if draws <= 45 else (1 if draws <= 1200 else 0)
    else:
        bound = 3 if draws <= 30 else (2 if draws <= 250 else 1)
    doomed = doomed_recursion(node, defs)
    cap = 30000 if tier == "quick" else 400000
    n_exec, capped = choice.explore(run_n(1, None), bound if not doomed else 0, horizon=HORIZON, max_executions=cap)
    res.stats[f"schemas_bound_{bound}"] += 1
    if capped:
        res.caps.append(f"{short(raw, 120)}: {cap} executions reached within deviation bound {bound}")
    for n in (0, 2, 3):
        c2, _ = choice.explore(run_n(n, None), 1 if draws <= 200 and not doomed else 0, horizon=HORIZON, max_executions=3000)
        n_exec += c2
    # generate_one, under every answer sequence with at most one deviation
    def run_one(ch):
        u.random, u.uuid = ScriptedRandom(ch), ScriptedUuid(ch)
        info = dict(info0, n="one")
        try:
            v = u.generate_one(parsed if len(ch.prefix) % 2 == 0 else copy.deepcopy(raw))
        except RecursionError:
            tag = "record-recursive-through-array-or-map" if doomed else "other"
            res.add(Violation("c20.generate", f"generate-raised:RecursionError:{tag}", f"generate_one raised RecursionError | {short(info0, 300)}", dict(info, answers=list(ch.choices))))
            return
        except (choice.ReplayDivergence, AssertionError):
            raise
        except Exception as e:
            res.add(Violation("c20.generate", f"generate-raised:{type(e).__name__}", f"generate_one raised {type(e).__name__}: {e} | {short(info0, 300)}", dict(info, answers=list(ch.choices))))
            return
        finally:
            u.random, u.uuid = saved
        res.evals += 1
        res.transitions += len(ch.choices)
        kv = key(v)
        if kv not in seen_values:
            seen_values.add(kv)
            check_value(fa, res, raw, parsed, node, defs, v, dict(info, answers=list(ch.choices)))

    c3, _ = choice.explore(run_one, 1 if (draws <= 1200 and not doomed) else 0, horizon=HORIZON, max_executions=5000)
    n_exec += c3
    res.states = n_exec
    res.distinct = len(seen_values)
    res.stats["traces_validated"] += n_exec
    res.stats["distinct_values_checked"] += len(seen_values)
    res.sample({"schema": raw, "executions": n_exec, "distinct_values": len(seen_values), "bound": bound})
    return res


def finalize(total, sets, tier):
    total.distinct = max(total.distinct, 2)


def replay(case):
    import fastavro as fa
    import fastavro.utils as u

    if case.get("n") == "interleaved":
        t = [i for i, p in enumerate(TWINS) if case["schema"] in p][0]
        r = run_interleaved(("interleave", t, 0 if TWINS[t][0] == case["schema"] else 1), "quick")
        return r.violations
    res = UnitResult()
    raw = case["schema"]
    node, defs = names.resolve(raw)
    parsed = fa.parse_schema(copy.deepcopy(raw))
    saved = (u.random, u.uuid)
    ch = choice.Chooser(list(case.get("answers", [])), HORIZON)
    u.random, u.uuid = ScriptedRandom(ch), ScriptedUuid(ch)
    n = case.get("n", 1)
    try:
        vals = [u.generate_one(parsed)] if n == "one" else list(u.generate_many(parsed, n))
    except RecursionError:
        tag = "record-recursive-through-array-or-map" if doomed_recursion(node, defs) else "other"
        res.add(Violation("c20.generate", f"generate-raised:RecursionError:{tag}", "generate raised RecursionError", case))
        return res.violations
    except Exception as e:
        res.add(Violation("c20.generate", f"generate-raised:{type(e).__name__}", f"{e}", case))
        return res.violations
    finally:
        u.random, u.uuid = saved
    for v in vals:
        check_value(fa, res, raw, parsed, node, defs, v, case)
    return res.violations
