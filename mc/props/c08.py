"""C08 — reading with a reader schema yields what the specification's resolution
rules prescribe (or a schema-resolution error)."""
import copy
import io
import json

from ..harness import UnitResult, Violation, short, note_case
from .. import family, alphabet
from ..values import same, key
from ..ref import names, conform, binary, resolve as rres
from .c13 import positions, get, put

LEVEL = "exploration"
RULE = (
    "writer schema W from the family (no namespaces; recursion only through unions) and hand-written evolution schemas; reader R "
    "derived from W by every single evolution step at EVERY position (pairs of steps: a fixed 1/8 sub-lattice for the hand-written "
    "schemas in quick, 1/15 for every schema in thorough): reorder fields, drop a field, "
    "add a field with/without default, rename a field with/without alias, every primitive replaced by every other primitive "
    "(all promotions and all non-promotions), enum symbol added/removed/reordered with/without enum default, fixed size "
    "changed, named type renamed with/without alias, definition moved between inline and by-reference positions, wrap in / "
    "unwrap from a union, union branches reordered/added/removed; plus R equal to W as a distinct object. Data D_1(W). Both "
    "schemaless_reader(fo, W, R) and reader(fo, reader_schema=R), each with raw and with pre-parsed schemas. Oracle (three-valued, on the decoded writer value with "
    "the written branch indices): VALUE -> returned bit/type-exactly; ERROR -> SchemaResolutionError; EITHER (incompatible "
    "element types hidden by an empty array/map) -> that value or SchemaResolutionError. distinct_nontrivial = distinct "
    "(W, R, datum) triples with R != W."
)
ASSUMPTIONS = [
    "changing the kind of a named type while keeping its name (record->enum) is not in the step alphabet: the statement's list of error causes does not cover it",
    "reader defaults are JSON values denoting themselves, or strings for bytes/fixed",
    "logical types are out of scope here (C16)",
    "pure-Python fastavro only (Cython absent)",
]
UNIT_TIMEOUT_S = 1500
PRIMS = family.PRIMS

HAND = [
    {"type": "record", "name": "R", "fields": [{"name": "a", "type": {"type": "enum", "name": "E", "symbols": ["A", "B"]}}, {"name": "b", "type": "E"}, {"name": "c", "type": "int"}]},
    {"type": "record", "name": "Outer", "fields": [
        {"name": "w", "type": {"type": "record", "name": "Wrapper", "fields": [{"name": "p", "type": {"type": "record", "name": "Point", "fields": [{"name": "x", "type": "int"}]}}]}},
        {"name": "p2", "type": "Point"}, {"name": "ps", "type": {"type": "array", "items": "Point"}}]},
    {"type": "record", "name": "Suits", "fields": [{"name": "s", "type": {"type": "enum", "name": "Suit", "symbols": ["SPADES", "HEARTS", "CLUBS"]}},
                                                    {"name": "m", "type": {"type": "map", "values": "Suit"}}, {"name": "u", "type": ["null", "Suit", "string"]}]},
    {"type": "record", "name": "Nums", "fields": [{"name": "i", "type": "int"}, {"name": "l", "type": "long"}, {"name": "f", "type": "float"}, {"name": "s", "type": "string"},
                                                   {"name": "b", "type": "bytes"}, {"name": "u", "type": ["int", "string"]}, {"name": "arr", "type": {"type": "array", "items": "long"}}]},
    ["null", "int", "string", {"type": "record", "name": "A", "fields": [{"name": "x", "type": "int"}]}, {"type": "fixed", "name": "F", "size": 2}],
    # definitions first, then unchanged records that only refer to them by name
    {"type": "record", "name": "Outer2", "fields": [
        {"name": "p", "type": {"type": "record", "name": "Point", "fields": [{"name": "x", "type": "int"}]}},
        {"name": "s", "type": {"type": "enum", "name": "Suit", "symbols": ["SPADES", "HEARTS", "CLUBS"]}},
        {"name": "w", "type": {"type": "record", "name": "Wrapper", "fields": [{"name": "q", "type": "Point"}, {"name": "qs", "type": {"type": "array", "items": "Point"}},
                                                                               {"name": "s2", "type": "Suit"}, {"name": "n", "type": "long"}]}},
        {"name": "w2", "type": ["null", "Wrapper"]}]},
]


# annotations the specification says must be ignored (unknown name, or a known name on the wrong base type): the
# underlying type is what is resolved, promotions included
UNKNOWN_LOGICAL = ("customer-id", "made-up", "date-on-long", "uuid-on-bytes")
HAND.append({"type": "record", "name": "Annot", "fields": [
    {"name": "s", "type": {"type": "string", "logicalType": "customer-id"}}, {"name": "i", "type": {"type": "int", "logicalType": "made-up"}},
    {"name": "l", "type": {"type": "long", "logicalType": "made-up"}}, {"name": "f", "type": {"type": "float", "logicalType": "made-up"}},
    {"name": "b", "type": {"type": "bytes", "logicalType": "customer-id"}},
    {"name": "a", "type": {"type": "array", "items": {"type": "int", "logicalType": "customer-id"}}},
    {"name": "u", "type": ["null", {"type": "string", "logicalType": "made-up"}]}]})


# aliases on WRITER fields are of no consequence for resolution (only the reader's aliases rename)
HAND.append({"type": "record", "name": "Contact", "fields": [
    {"name": "email_address", "type": "string", "aliases": ["email", "mail"]}, {"name": "id", "type": "int", "aliases": ["ident"]},
    {"name": "kind", "type": {"type": "enum", "name": "CK", "symbols": ["A", "B"], "aliases": ["OldCK"]}}]})


# fixed types of size 0 and 1 (a size of 0 is a size), and named types reached by relative name inside a namespace
HAND.append({"type": "record", "name": "Sizes", "fields": [
    {"name": "z", "type": {"type": "fixed", "name": "Z0", "size": 0}}, {"name": "o", "type": {"type": "fixed", "name": "O1", "size": 1}},
    {"name": "zs", "type": {"type": "array", "items": "Z0"}}, {"name": "u", "type": ["null", "O1", "Z0"]}]})
HAND.append({"type": "record", "name": "Shape", "namespace": "geo", "fields": [
    {"name": "p", "type": {"type": "record", "name": "Point", "fields": [{"name": "x", "type": "int"}, {"name": "y", "type": "int"}]}},
    {"name": "ps", "type": {"type": "array", "items": "Point"}}, {"name": "m", "type": {"type": "map", "values": "geo.Point"}},
    {"name": "k", "type": {"type": "enum", "name": "Kind", "symbols": ["A", "B"]}}, {"name": "k2", "type": ["null", "Kind"]}]})


# an enum defined inline on a field that has a FIELD default (the enum itself has none): an unknown writer symbol is an error
HAND.append({"type": "record", "name": "Shirt", "fields": [
    {"name": "size", "type": {"type": "enum", "name": "Size", "symbols": ["S", "M", "L", "XL"]}, "default": "M"},
    {"name": "alt", "type": ["null", "Size"], "default": None}, {"name": "n", "type": "int"}]})
# a record used by name as array items and map values, with two fields (a reader that drops one must skip it everywhere)
HAND.append({"type": "record", "name": "Holder", "fields": [
    {"name": "first", "type": {"type": "record", "name": "Inner", "fields": [{"name": "x", "type": "int"}, {"name": "y", "type": "string"}]}},
    {"name": "arr", "type": {"type": "array", "items": "Inner"}}, {"name": "m", "type": {"type": "map", "values": "Inner"}}]})


def has_namespace(s):
    t = json.dumps(s)
    return '"namespace"' in t or any("." in n for n in _names(s))


def _names(s, acc=None):
    acc = [] if acc is None else acc
    if isinstance(s, list):
        for b in s:
            _names(b, acc)
    elif isinstance(s, dict):
        if "name" in s and s.get("type") in ("record", "enum", "fixed"):
            acc.append(s["name"])
        for k in ("items", "values"):
            if k in s:
                _names(s[k], acc)
        for f in s.get("fields", []) if s.get("type") == "record" else []:
            _names(f["type"], acc)
    return acc


def writer_schemas(tier):
    out = []
    fam = family.schemas("quick")
    for i, s in enumerate(fam):
        if has_namespace(s):
            continue
        t = json.dumps(s)
        if '"nullable"' in t or '"Big"' in t:
            continue
        out.append(s)
    if tier == "quick":
        out = out[:60] + out[60::4]
    return HAND + out


def inline_all(s):
    """Every by-name reference replaced by its definition (None when recursive)."""
    defs = {}

    def collect(x):
        if isinstance(x, list):
            for b in x:
                collect(b)
        elif isinstance(x, dict):
            if x.get("type") in ("record", "enum", "fixed"):
                defs[x["name"]] = x
            for k in ("items", "values"):
                if k in x:
                    collect(x[k])
            if x.get("type") == "record":
                for f in x["fields"]:
                    collect(f["type"])

    collect(s)

    class Rec(Exception):
        pass

    def walk(x, open_):
        if isinstance(x, list):
            return [walk(b, open_) for b in x]
        if isinstance(x, str):
            if x in PRIMS:
                return x
            if x in open_:
                raise Rec()
            return walk(copy.deepcopy(defs[x]), open_)
        t = x.get("type")
        x = dict(x)
        if t == "record":
            o2 = open_ | {x["name"]}
            x["fields"] = [dict(f, type=walk(f["type"], o2)) for f in x["fields"]]
        elif t == "array":
            x["items"] = walk(x["items"], open_)
        elif t == "map":
            x["values"] = walk(x["values"], open_)
        return x

    try:
        return walk(copy.deepcopy(s), frozenset())
    except (Rec, KeyError):
        return None


def steps(W, first=True):
    """[(label, R)] single evolution steps at every position; R is a valid schema or is dropped by the caller."""
    out = [("identical-copy", copy.deepcopy(W))]
    inl = inline_all(W)
    src = inl if inl is not None else W

    def emit(label, path, newnode, base=None):
        c = copy.deepcopy(base if base is not None else src)
        c = put(c, path, newnode)
        if inl is not None:
            c = family.dedupe(c)
        out.append((label, c))

    for path, kind in positions(src):
        node = get(src, path)
        if kind == "name" or (kind == "schema" and node.get("type") in PRIMS and (set(node) == {"type"} or node.get("logicalType") in UNKNOWN_LOGICAL)):
            t = node if isinstance(node, str) else node["type"]
            if t in PRIMS:
                for other in PRIMS:
                    if other != t:
                        emit(f"prim:{t}->{other}", path, other)
                if path:
                    emit("wrap-null-first", path, ["null", t]) if t != "null" else None
                    emit("wrap-null-last", path, [t, "null"]) if t != "null" else None
                    emit("wrap-promoted-first", path, ["double", t]) if t in ("int", "long", "float") else None
                    emit("wrap-bytes-first", path, ["bytes", "string"]) if t == "string" else None
                    emit("wrap-other", path, ["boolean", "string"]) if t not in ("boolean", "string", "bytes") else None
        if kind == "schema":
            t = node.get("type")
            if t == "record":
                fs = node["fields"]
                if len(fs) >= 2:
                    emit("reorder-fields", path, dict(node, fields=list(reversed(copy.deepcopy(fs)))))
                for i, f in enumerate(fs):
                    emit(f"drop-field", path, dict(node, fields=[copy.deepcopy(x) for j, x in enumerate(fs) if j != i]))
                    emit("rename-field-with-alias", path, dict(node, fields=[dict(copy.deepcopy(x), name="renamed", aliases=[x["name"]]) if j == i else copy.deepcopy(x) for j, x in enumerate(fs)]))
                    emit("rename-field-no-alias", path, dict(node, fields=[dict(copy.deepcopy(x), name="renamed") if j == i else copy.deepcopy(x) for j, x in enumerate(fs)]))
                for f in (fs if first else []):  # only aliases the WRITER declares (a later step's reader aliases do rename)
                    for al in f.get("aliases", []):
                        for pos in (0, len(fs)):
                            # a reader-only field that happens to be named like an alias the WRITER declared for another field
                            nf = copy.deepcopy(fs)
                            nf.insert(pos, {"name": al, "type": "string", "default": "reader-default"})
                            emit("add-field-named-like-writer-alias", path, dict(node, fields=nf))
                            nf = copy.deepcopy(fs)
                            nf.insert(pos, {"name": al, "type": "string"})
                            emit("add-field-named-like-writer-alias-no-default", path, dict(node, fields=nf))
                for i, f in enumerate(fs):
                    # an alias the writer never used, on a field that keeps its name - together with a new defaulted field
                    nf = [dict(copy.deepcopy(x), aliases=["never_used_by_writer", "zz_old"]) if j == i else copy.deepcopy(x) for j, x in enumerate(fs)]
                    nf.append({"name": "added_too", "type": "string", "default": "dflt"})
                    emit("unused-alias-plus-added-field", path, dict(node, fields=nf))
                for pos in (0, len(fs)):
                    nf = copy.deepcopy(fs)
                    nf.insert(pos, {"name": "added", "type": "int", "default": 42})
                    emit("add-field-with-default", path, dict(node, fields=nf))
                    nf = copy.deepcopy(fs)
                    nf.insert(pos, {"name": "added", "type": ["null", "string"]})
                    emit("add-field-no-default", path, dict(node, fields=nf))
                    nf = copy.deepcopy(fs)
                    nf.insert(pos, {"name": "addedb", "type": "bytes", "default": "ÿ"})
                    emit("add-bytes-field-with-default", path, dict(node, fields=nf))
                    nf = copy.deepcopy(fs)
                    nf.insert(pos, {"name": "addedfx2", "type": "AddedFx", "default": "zz"})
                    nf.insert(pos, {"name": "addedfx", "type": {"type": "fixed", "name": "AddedFx", "size": 2}, "default": "\u00ff\u0000"})
                    emit("add-fixed-fields-by-name-with-defaults", path, dict(node, fields=nf))
                    nf = copy.deepcopy(fs)
                    nf.insert(pos, {"name": "addedb0", "type": "bytes", "default": ""})
                    nf.insert(pos, {"name": "addedl", "type": {"type": "array", "items": "string"}, "default": []})
                    nf.insert(pos, {"name": "addedm", "type": {"type": "map", "values": "int"}, "default": {}})
                    nf.insert(pos, {"name": "addedz", "type": "int", "default": 0})
                    nf.insert(pos, {"name": "addedf", "type": "boolean", "default": False})
                    nf.insert(pos, {"name": "addedn", "type": ["null", "int"], "default": None})
                    emit("add-fields-with-falsy-defaults", path, dict(node, fields=nf))
                    nf = copy.deepcopy(fs)
                    nf.insert(pos, {"name": "addedr", "type": {"type": "record", "name": "AddedRec", "fields": [{"name": "q", "type": "long", "default": 1}]}, "default": {"q": 5}})
                    emit("add-record-field-with-default", path, dict(node, fields=nf))
            if t in ("record", "enum", "fixed"):
                emit("rename-type-with-alias", path, dict(node, name=node["name"] + "New", aliases=[node["name"]]))
                emit("rename-type-no-alias", path, dict(node, name=node["name"] + "New"))
            if t == "enum":
                sy = node["symbols"]
                emit("enum-add-symbol", path, dict(node, symbols=sy + ["ZZ"]))
                emit("enum-reorder", path, dict(node, symbols=list(reversed(sy))))
                for i in range(len(sy)):
                    rest = [x for j, x in enumerate(sy) if j != i]
                    if rest:
                        emit("enum-remove-symbol", path, dict(node, symbols=rest))
                        emit("enum-remove-symbol-with-default", path, dict(node, symbols=rest, default=rest[-1]))
            if t == "fixed":
                emit("fixed-size", path, dict(node, size=node["size"] + 1))
                if node["size"] >= 1:
                    emit("fixed-size-to-zero", path, dict(node, size=0))
            if t in ("array", "map", "record", "enum", "fixed") and path:
                emit("wrap-null-first", path, ["null", copy.deepcopy(node)])
                emit("wrap-null-last", path, [copy.deepcopy(node), "null"])
            if t in ("array", "map"):
                emit("array<->map", path, {"type": "map", "values": node["items"]} if t == "array" else {"type": "array", "items": node["values"]})
        if kind == "union":
            bs = node
            emit("union-reverse", path, list(reversed(copy.deepcopy(bs))))
            for i in range(len(bs)):
                rest = [copy.deepcopy(b) for j, b in enumerate(bs) if j != i]
                if len(rest) >= 1:
                    emit("union-remove-branch", path, rest)
                emit("union-unwrap", path, copy.deepcopy(bs[i])) if path or True else None
            if "string" not in [b for b in bs if isinstance(b, str)]:
                emit("union-add-branch-first", path, ["string"] + copy.deepcopy(bs))
                emit("union-add-branch-last", path, copy.deepcopy(bs) + ["string"])
            if "double" not in [b for b in bs if isinstance(b, str)]:
                emit("union-add-double-first", path, ["double"] + copy.deepcopy(bs))
    # definition moved between inline and by-reference positions: same fields, other order, re-deduped
    if inl is not None and isinstance(inl, dict) and inl.get("type") == "record" and len(inl["fields"]) >= 2:
        c = copy.deepcopy(inl)
        c["fields"] = c["fields"][1:] + c["fields"][:1]
        out.append(("rotate-fields-moves-definition", family.dedupe(c)))
    return out


def units(tier):
    return list(range(len(writer_schemas(tier))))


class SizedBlocks:
    """Layout for the independent encoder: every block in negative-count + byte-size form, two items per block."""

    def blocks(self, n):
        out = []
        while n > 0:
            c = min(2, n)
            out.append((c, True))
            n -= c
        return out


def _scribble(v):
    """Mutate every container inside a returned value."""
    if isinstance(v, dict):
        for x in list(v.values()):
            _scribble(x)
        v["__scribble__"] = 1
    elif isinstance(v, list):
        for x in v:
            _scribble(x)
        v.append("__scribble__")


class ForwardOnly:
    """A stream that can only be read forward (a pipe, a socket): read() and nothing else."""

    def __init__(self, data):
        self._fo = io.BytesIO(data)

    def read(self, n=-1):
        return self._fo.read(n)


def read_both(fa, W, R, payload, value_datum):
    from fastavro._read_common import SchemaResolutionError

    results = []
    for how in ("schemaless", "schemaless-parsed", "container", "container-parsed", "schemaless-forward-only", "container-blocks"):
        try:
            if how == "schemaless":
                got = fa.schemaless_reader(io.BytesIO(payload), copy.deepcopy(W), copy.deepcopy(R))
            elif how == "schemaless-forward-only":
                got = fa.schemaless_reader(ForwardOnly(payload), copy.deepcopy(W), copy.deepcopy(R))
            elif how == "schemaless-parsed":
                got = fa.schemaless_reader(io.BytesIO(payload), fa.parse_schema(copy.deepcopy(W)), fa.parse_schema(copy.deepcopy(R)))
            elif how == "container-blocks":
                fo = io.BytesIO()
                fa.writer(fo, copy.deepcopy(W), [copy.deepcopy(value_datum), copy.deepcopy(value_datum)], sync_marker=b"R" * 16, sync_interval=1)
                fo.seek(0)
                got = [x for blk in fa.block_reader(fo, reader_schema=copy.deepcopy(R)) for x in blk]
                got = got[0] if (len(got) == 2 and same(got[0], got[1])) else ("<records>", got)
            elif how == "container-parsed":
                fo = io.BytesIO()
                fa.writer(fo, fa.parse_schema(copy.deepcopy(W)), [copy.deepcopy(value_datum)], sync_marker=b"R" * 16)
                fo.seek(0)
                got = list(fa.reader(fo, reader_schema=fa.parse_schema(copy.deepcopy(R))))
                got = got[0] if len(got) == 1 else ("<records>", got)
            else:
                fo = io.BytesIO()
                fa.writer(fo, copy.deepcopy(W), [copy.deepcopy(value_datum), copy.deepcopy(value_datum)], sync_marker=b"R" * 16)
                fo.seek(0)
                rd = fa.reader(fo, reader_schema=copy.deepcopy(R))
                first = next(rd)
                keep = copy.deepcopy(first)
                _scribble(first)  # the caller owns what it was given: changing it must not change later records
                second = next(rd)
                rest = list(rd)
                got = keep if (not rest and same(keep, second)) else ("<records differ or extra>", keep, second, rest)
            results.append((how, "value", got))
        except SchemaResolutionError as e:
            results.append((how, "resolution-error", str(e)[:150]))
        except Exception as e:
            results.append((how, f"other:{type(e).__name__}", str(e)[:150]))
    return results


def run_pair(fa, res, W, wnode, wdefs, label, R, data, seen, tier):
    try:
        rnode, rdefs = names.resolve(R)
    except Exception:
        return  # the step did not yield a valid schema
    try:
        fa.parse_schema(copy.deepcopy(R))
    except Exception as e:
        if "Default value" in str(e):
            res.stats["steps_dropped_default_no_longer_matches"] += 1
            return  # the step changed a type under a field default: not a valid reader schema (C11's business)
        res.add(Violation("c08.reader-schema", f"valid-reader-schema-rejected:{label}:{type(e).__name__}", f"reader schema (step {label}) rejected: {e} | {short(R, 300)}", {"W": W, "R": R, "step": label, "datum": None}))
        return
    identical = json.dumps(R, sort_keys=True) == json.dumps(W, sort_keys=True)
    for d in data:
        kk = (json.dumps(R, sort_keys=True), key(d))
        if kk in seen:
            continue
        seen.add(kk)
        info = {"W": W, "R": R, "step": label, "datum": d}
        note_case(info)
        v, idx = conform.plan(wnode, wdefs, d)
        payload = binary.encode(wnode, wdefs, v, conform.Indices(idx))
        sized = binary.encode(wnode, wdefs, v, conform.Indices(idx), SizedBlocks())
        tv = rres.tag(wnode, wdefs, v, conform.Indices(idx))
        if identical:
            want = ("value", v)
        else:
            want = rres.outcome(wnode, wdefs, rnode, rdefs, tv)
            if want[0] == "skip":
                continue
        results = read_both(fa, W, R, payload, d)
        if sized != payload:
            # the same value as another specification-valid encoding: blocks announced by negative count + byte size
            try:
                results.append(("schemaless-sized-blocks", "value", fa.schemaless_reader(io.BytesIO(sized), copy.deepcopy(W), copy.deepcopy(R))))
            except Exception as e:
                from fastavro._read_common import SchemaResolutionError

                results.append(("schemaless-sized-blocks", "resolution-error" if isinstance(e, SchemaResolutionError) else f"other:{type(e).__name__}", str(e)[:150]))
        for how, kind, got in results:
            res.evals += 1
            ok = True
            if want[0] == "value":
                ok = kind == "value" and same(got, want[1])
            elif want[0] == "error":
                ok = kind == "resolution-error"
            else:
                ok = kind == "resolution-error" or (kind == "value" and same(got, want[1]))
            if not ok:
                base = label.split(":")[0]
                if kind == "value":
                    sig = f"{'wrong-value' if want[0] != 'error' else 'value-instead-of-error'}:{base}"
                else:
                    sig = f"{kind}-instead-of-{want[0]}:{base}"
                res.add(Violation(f"c08.{how}", sig, f"step {label}: {how} reader gave {kind} {short(got, 200)}; the rules give {want[0]} {short(want[1], 200)} | W={short(W, 250)} R={short(R, 250)} datum={short(d, 120)}", dict(info, how=how)))


def run_unit(i, tier):
    import fastavro as fa

    res = UnitResult()
    W = writer_schemas(tier)[i]
    wnode, wdefs = names.resolve(W)
    data = [d for d, c in alphabet.data_for(wnode, wdefs, 1, hints=False, big=False)]
    if tier == "quick":
        data = data[:40]
    seen = set()
    st = steps(W)
    for label, R in st:
        run_pair(fa, res, W, wnode, wdefs, label, R, data, seen, tier)
    if tier == "thorough" or i < len(HAND):
        for label, R in (st[1::3] if tier == "thorough" else st[1::2]):
            try:
                names.resolve(R)
            except Exception:
                continue
            for label2, R2 in (steps(R, first=False)[1::5] if tier == "thorough" else steps(R, first=False)[1::4]):
                run_pair(fa, res, W, wnode, wdefs, label + "+" + label2, R2, data[:12] if tier == "thorough" else data[:4], seen, tier)
    res.distinct = len(seen)
    res.stats["reader_schemas"] += len(st)
    res.sample({"W": W, "steps": len(st), "example_step": st[min(3, len(st) - 1)][0], "R": st[min(3, len(st) - 1)][1]})
    return res


def replay(case):
    import fastavro as fa

    res = UnitResult()
    W, R = case["W"], case["R"]
    wnode, wdefs = names.resolve(W)
    run_pair(fa, res, W, wnode, wdefs, case["step"], R, [case["datum"]], set(), "quick")
    return res.violations


def standalone(case):
    return ("import io, sys; sys.path.insert(0, '/repo')\nimport fastavro\n"
            f"W = {case['W']!r}\nR = {case['R']!r}\ndatum = {case['datum']!r}\n"
            "fo = io.BytesIO(); fastavro.schemaless_writer(fo, W, datum); fo.seek(0)\nprint(fastavro.schemaless_reader(fo, W, R))\n")
