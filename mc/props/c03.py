"""C03 — the decoder accepts every specification-valid layout (read and skip
paths), rejects out-of-range indices and short input."""
import copy
import io
import itertools

from ..harness import UnitResult, Violation, short, note_case
from .. import family, alphabet
from ..values import same, key
from ..ref import names, conform, binary

LEVEL = "exploration"
RULE = (
    "for every schema of the family and every datum of D_1 (collections of <=4 items quick / <=6 thorough): (a) EVERY "
    "composition of each array/map into blocks x each block in positive or negative-count+byte-size form, nested "
    "collections included (odometer over the independent encoder's layout choice points), decoded by schemaless_reader "
    "and through the skip path (value wrapped as field 'skipme' before 'keep:int', read with a reader schema lacking "
    "'skipme'); (b) at every union/enum index position of the encoding the index replaced by each of -1,-2,n,n+1,2^31,"
    "-2^63: an exception is required on the read and on the skip path; (c) every proper prefix of the encoding must "
    "raise, on both paths. distinct_nontrivial = distinct byte strings fed to the decoder."
)
ASSUMPTIONS = [
    "valid encodings come from the independent encoder mc/ref/binary.py, branch indices from the C09 rule",
    "pure-Python fastavro only (Cython absent)",
]
UNIT_TIMEOUT_S = 900
LAYOUT_CAP = {"quick": 20000, "thorough": 400000}
KEEP = 77


class Odometer:
    """Stateless enumeration of all choice sequences: replay a prefix, take 0
    afterwards, then increment the last incrementable position."""

    def __init__(self):
        self.prefix = []
        self.trace = []  # (choice, arity)

    def start(self):
        self.trace = []

    def choose(self, n):
        i = len(self.trace)
        c = self.prefix[i] if i < len(self.prefix) else 0
        if c >= n:
            raise RuntimeError("nondeterministic arity while replaying a prefix")
        self.trace.append((c, n))
        return c

    def advance(self):
        t = self.trace
        while t and t[-1][0] + 1 >= t[-1][1]:
            t.pop()
        if not t:
            return False
        self.prefix = [c for c, _ in t[:-1]] + [t[-1][0] + 1]
        return True


_LAYOUTS = {}


class ChoiceLayout:
    def __init__(self, odo):
        self.odo = odo

    def blocks(self, n):
        if n not in _LAYOUTS:
            _LAYOUTS[n] = binary.all_layouts(n)
        opts = _LAYOUTS[n]
        return opts[self.odo.choose(len(opts))]


BAD = lambda n: [-1, -2, n, n + 1, 1 << 31, -(1 << 63)]  # noqa


def units(tier):
    return ["huge", "many-blocks"] + list(range(len(family.schemas(tier))))


def _small(d, lim):
    if isinstance(d, (list, tuple)):
        return len(d) <= lim and all(_small(x, lim) for x in d)
    if isinstance(d, dict):
        return len(d) <= lim and all(_small(x, lim) for x in d.values())
    if isinstance(d, (str, bytes, bytearray)):
        return len(d) <= 300
    return True


def _wrap(raw):
    return (
        {"type": "record", "name": "Wrap__", "fields": [{"name": "skipme", "type": raw}, {"name": "keep", "type": "int"}]},
        {"type": "record", "name": "Wrap__", "fields": [{"name": "keep", "type": "int"}]},
    )


def _wrap_last(raw):
    """The dropped field comes LAST: a prefix cut inside it must raise although nothing is read after it."""
    return (
        {"type": "record", "name": "WrapL__", "fields": [{"name": "keep", "type": "int"}, {"name": "skipme", "type": raw}]},
        {"type": "record", "name": "WrapL__", "fields": [{"name": "keep", "type": "int"}]},
    )


def evolve_enums(raw):
    """The schema with every enum given other symbols (reordered, one more) and a default: what a reader of a later version
    holds.  An index outside the WRITER's symbol list stays an error under it (it is not an 'unknown symbol')."""
    found = []

    def walk(x):
        if isinstance(x, list):
            return [walk(b) for b in x]
        if isinstance(x, dict):
            x = dict(x)
            t = x.get("type")
            if t == "enum":
                x["symbols"] = list(reversed(x["symbols"])) + ["ZZZ"]
                x["default"] = x["symbols"][0]
                found.append(1)
            elif t in ("record", "error"):
                x["fields"] = [dict(f, type=walk(f["type"])) for f in x["fields"]]
            elif t == "array":
                x["items"] = walk(x["items"])
            elif t == "map":
                x["values"] = walk(x["values"])
            elif isinstance(t, (dict, list)):
                x["type"] = walk(t)
            return x
        return x

    out = walk(copy.deepcopy(raw))
    return out if found else None


def check_bytes(fa, res, ctx, buf, expect, mode, seen):
    """mode 'valid': must decode to expect; mode 'bad': must raise."""
    kb = (mode, buf)
    if kb in seen:
        return
    seen.add(kb)
    raw, W, R, info = ctx
    # read path
    res.evals += 1
    fo = io.BytesIO(buf)
    try:
        got = fa.schemaless_reader(fo, raw)
        err = None
    except Exception as e:
        got, err = None, e
    if mode == "valid":
        if err is not None:
            res.add(Violation("c03.valid-layout.read", f"valid-layout-raised:{type(err).__name__}",
                              f"valid encoding {buf[:80].hex()} raised {type(err).__name__}: {err} | {short(info, 300)}", dict(info, buf=buf, mode=mode)))
        elif not same(got, expect) or fo.tell() != len(buf):
            res.add(Violation("c03.valid-layout.read", "valid-layout-wrong-value",
                              f"valid encoding {buf[:80].hex()} decoded to {short(got)} @{fo.tell()}/{len(buf)}, independent decoder gives {short(expect)} | {short(info, 300)}", dict(info, buf=buf, mode=mode)))
    else:
        if err is None:
            res.add(Violation(f"c03.{mode}.read", f"{mode}-returned-value",
                              f"{mode} encoding {buf[:80].hex()} returned {short(got)} instead of raising | {short(info, 300)}", dict(info, buf=buf, mode=mode)))
    # the same through a buffered reader with a tiny buffer (a stream that offers peek(), with boundaries inside the items)
    if len(buf) > 1:
        res.evals += 1
        br = io.BufferedReader(io.BytesIO(buf), buffer_size=3)
        try:
            got_b = fa.schemaless_reader(br, raw)
            err_b = None
        except Exception as e:
            got_b, err_b = None, e
        if mode == "valid" and (err_b is not None or not same(got_b, expect) or br.read() != b""):
            res.add(Violation("c03.valid-layout.read", "valid-layout-buffered-stream", f"valid encoding {buf[:80].hex()} through a BufferedReader: {short(got_b)} / {type(err_b).__name__ if err_b else 'no error'}; expected {short(expect)} | {short(info, 300)}", dict(info, buf=buf, mode=mode)))
        elif mode != "valid" and err_b is None:
            res.add(Violation(f"c03.{mode}.read", f"{mode}-returned-value:buffered-stream", f"{mode} encoding {buf[:80].hex()} through a BufferedReader returned {short(got_b)} instead of raising | {short(info, 300)}", dict(info, buf=buf, mode=mode)))
    # skip path
    res.evals += 1
    wb = buf + binary.zigzag(KEEP) if mode != "prefix" else buf
    fo = io.BytesIO(wb)
    try:
        got = fa.schemaless_reader(fo, W, R)
        err = None
    except Exception as e:
        got, err = None, e
    if mode == "valid":
        if err is not None:
            res.add(Violation("c03.valid-layout.skip", f"valid-layout-skip-raised:{type(err).__name__}",
                              f"skipping valid encoding {buf[:80].hex()} raised {type(err).__name__}: {err} | {short(info, 300)}", dict(info, buf=buf, mode=mode)))
        elif got != {"keep": KEEP} or fo.tell() != len(wb):
            res.add(Violation("c03.valid-layout.skip", "valid-layout-skip-misaligned",
                              f"after skipping {buf[:80].hex()} the next field read as {short(got)} @{fo.tell()}/{len(wb)} | {short(info, 300)}", dict(info, buf=buf, mode=mode)))
    else:
        if err is None:
            res.add(Violation(f"c03.{mode}.skip", f"{mode}-skip-returned-value",
                              f"{mode} encoding {buf[:80].hex()} in a skipped field returned {short(got)} instead of raising | {short(info, 300)}", dict(info, buf=buf, mode=mode)))


def run_case(fa, res, raw, node, defs, d, tier, seen):
    lim = 4 if tier == "quick" else 6
    try:
        v, idx = conform.plan(node, defs, d)
    except Exception:
        return
    W, R = _wrap(raw)
    EV = evolve_enums(raw)
    info = {"schema": raw, "datum": d}
    note_case(info)
    ctx = (raw, W, R, info)
    # (a) all layouts
    odo = Odometer()
    n_layouts = 0
    single = None
    while True:
        odo.start()
        buf = binary.encode(node, defs, v, conform.Indices(idx), ChoiceLayout(odo))
        if single is None:
            single = binary.encode(node, defs, v, conform.Indices(idx))
        n_layouts += 1
        check_bytes(fa, res, ctx, buf, v, "valid", seen)
        if n_layouts >= LAYOUT_CAP[tier]:
            res.caps.append(f"layout cap {LAYOUT_CAP[tier]} hit for {short(info, 200)}")
            break
        if not odo.advance():
            break
    res.stats["layouts"] += n_layouts
    # self-check of the reference: decode(encode) = id, indices equal
    marks = []
    rv, pos, ridx = binary.decode(node, defs, single, 0, marks)
    assert same(rv, v) and pos == len(single) and ridx == idx, ("reference self-check", raw, d)
    # (b) bad indices
    for (a, b, kind, arity) in marks:
        for bad in BAD(arity):
            mutated = single[:a] + binary.zigzag(bad) + single[b:]
            res.stats["bad_index_cases"] += 1
            check_bytes(fa, res, (raw, W, R, dict(info, bad_index=bad, at=a, kind=kind)), mutated, None, "bad-index", seen)
            # reader options do not make a bad index good
            for opt in ({"return_record_name": True}, {"return_named_type": True}, {"return_record_name": True, "return_record_name_override": True}):
                res.evals += 1
                try:
                    got = fa.schemaless_reader(io.BytesIO(mutated), raw, **opt)
                except Exception:
                    continue
                res.add(Violation("c03.bad-index.read", "bad-index-returned-value:reader-options", f"bad-index encoding {mutated[:80].hex()} ({kind} index {bad}) read with {opt} returned {short(got)} instead of raising | {short(info, 300)}",
                                  dict(info, bad_index=bad, at=a, kind=kind, buf=mutated, mode="bad-index-options", options=opt)))
                break
            if EV is not None:
                res.evals += 1
                try:
                    got = fa.schemaless_reader(io.BytesIO(mutated), raw, EV)
                except Exception:
                    continue
                res.add(Violation("c03.bad-index.read", "bad-index-returned-value:evolved-reader",
                                  f"bad-index encoding {mutated[:80].hex()} ({kind} index {bad}) read with a reader schema whose enums have other symbols and a default returned {short(got)} instead of raising | {short(info, 300)}",
                                  dict(info, bad_index=bad, at=a, kind=kind, buf=mutated, mode="bad-index-evolved")))
    # (c) proper prefixes: read path on value bytes, skip path on the wrapped record's bytes
    WL, RL = _wrap_last(raw)
    for cut in range(len(single)):
        res.stats["prefix_cases"] += 1
        check_bytes(fa, res, (raw, W, R, dict(info, cut=cut)), single[:cut], None, "prefix", seen)
        # value as the trailing, skipped field of a record
        res.evals += 1
        buf = binary.zigzag(KEEP) + single[:cut]
        try:
            got = fa.schemaless_reader(io.BytesIO(buf), WL, RL)
        except Exception:
            continue
        res.add(Violation("c03.prefix.skip", "prefix-skip-last-returned-value",
                          f"prefix {single[:cut].hex()} of {single.hex()} in a skipped TRAILING field returned {short(got)} instead of raising | {short(info, 300)}",
                          dict(info, buf=single[:cut], mode="prefix-last", cut=cut)))


def run_huge(fa, res):
    """Prefixes of encodings that end in a bytes / string payload longer than 1 MiB (read, and skipped as a trailing field)."""
    seen = 0
    for kind in ("bytes", "string"):
        for size in ((1 << 20) + 5, (1 << 20), 3 * (1 << 20) + 1):
            payload = (b"p" * size)
            enc = binary.zigzag(7) + binary.zigzag(size) + payload
            raw = {"type": "record", "name": "Huge", "fields": [{"name": "n", "type": "int"}, {"name": "v", "type": kind}]}
            WL = {"type": "record", "name": "WrapH__", "fields": [{"name": "keep", "type": "int"}, {"name": "skipme", "type": raw}]}
            RL = {"type": "record", "name": "WrapH__", "fields": [{"name": "keep", "type": "int"}]}
            info = {"schema": raw, "datum": f"<{size} bytes>", "huge": size}
            cuts = sorted(set(list(range(0, 8)) + [len(enc) - d for d in (1, 2, 3, 5, 1000, 65536, 65537)] + [(1 << 20) + d for d in (-3, -1, 0, 1, 2, 3, 4, 5, 6, 7)]
                              + [m * 65536 + d for m in (1, 8, 15, 16, 17, 32) for d in (-1, 0, 1)]))
            # the intact encoding must read
            res.evals += 1
            got = fa.schemaless_reader(io.BytesIO(enc), raw)
            if len(got["v"]) != size:
                res.add(Violation("c03.valid-layout.read", "valid-layout-wrong-value:huge", f"{size}-byte {kind} read back with length {len(got['v'])}", dict(info, mode="huge")))
            for cut in cuts:
                if not (0 <= cut < len(enc)):
                    continue
                seen += 1
                for how, buf, args in (("read", enc[:cut], (raw,)), ("skip-last", binary.zigzag(KEEP) + enc[:cut], (WL, RL))):
                    res.evals += 1
                    try:
                        out = fa.schemaless_reader(io.BytesIO(buf), *args)
                    except Exception:
                        continue
                    res.add(Violation("c03.prefix." + how, f"prefix-returned-value:huge-{kind}",
                                      f"prefix of {cut} of {len(enc)} bytes ending inside a {size}-byte {kind} payload ({how}) returned a value of type {type(out).__name__} instead of raising", dict(info, mode="huge", cut=cut)))
    res.distinct = seen
    res.sample({"huge_payloads": "1 MiB, 1 MiB + 5, 3 MiB + 1; bytes and string", "cuts": seen})
    return res


def run_many_blocks(fa, res):
    """Arrays and maps split into very many blocks (one item per block, positive and sized form, and mixed)."""
    n_cases = 0
    for nblocks in (100, 1000, 3000, 20000):
        for kind in ("array", "map"):
            for form in ("positive", "sized", "alternating"):
                body = bytearray()
                expect_a, expect_m = [], {}
                for i in range(nblocks):
                    item = binary.zigzag(i) if kind == "array" else (binary.zigzag(len(b"k%d" % i)) + b"k%d" % i + binary.zigzag(i))
                    neg = form == "sized" or (form == "alternating" and i % 2)
                    body += (binary.zigzag(-1) + binary.zigzag(len(item)) if neg else binary.zigzag(1)) + item
                    expect_a.append(i)
                    expect_m["k%d" % i] = i
                body += b"\x00"
                raw = {"type": "array", "items": "int"} if kind == "array" else {"type": "map", "values": "int"}
                expect = expect_a if kind == "array" else expect_m
                W = {"type": "record", "name": "WrapM__", "fields": [{"name": "skipme", "type": raw}, {"name": "keep", "type": "int"}]}
                R = {"type": "record", "name": "WrapM__", "fields": [{"name": "keep", "type": "int"}]}
                info = {"schema": raw, "datum": f"<{nblocks} items, one per block, {form}>", "blocks": nblocks, "form": form}
                n_cases += 1
                res.evals += 2
                try:
                    got = fa.schemaless_reader(io.BytesIO(bytes(body)), raw)
                    if got != expect:
                        res.add(Violation("c03.valid-layout.read", "valid-layout-wrong-value:many-blocks", f"{kind} of {nblocks} one-item blocks ({form}) decoded to a different value", dict(info, mode="many-blocks")))
                except Exception as e:
                    res.add(Violation("c03.valid-layout.read", f"valid-layout-raised:{type(e).__name__}:many-blocks", f"{kind} of {nblocks} one-item blocks ({form}) raised {type(e).__name__}: {str(e)[:100]}", dict(info, mode="many-blocks")))
                try:
                    got = fa.schemaless_reader(io.BytesIO(bytes(body) + binary.zigzag(KEEP)), W, R)
                    if got != {"keep": KEEP}:
                        res.add(Violation("c03.valid-layout.skip", "valid-layout-skip-misaligned:many-blocks", f"after skipping a {kind} of {nblocks} one-item blocks ({form}) the next field read as {short(got)}", dict(info, mode="many-blocks")))
                except Exception as e:
                    res.add(Violation("c03.valid-layout.skip", f"valid-layout-skip-raised:{type(e).__name__}:many-blocks", f"skipping a {kind} of {nblocks} one-item blocks ({form}) raised {type(e).__name__}: {str(e)[:100]}", dict(info, mode="many-blocks")))
    # very many items that take no bytes at all (null, a field-less record, fixed of size 0): the count says nothing about
    # how many bytes follow
    for count in (16384, 16385, 20000, 70000):
        for item, val in (("null", None), ({"type": "record", "name": "Nothing", "fields": []}, {}), ({"type": "fixed", "name": "Z0", "size": 0}, b"")):
            for kind in ("array", "map"):
                if kind == "map" and count > 20000:
                    continue
                if kind == "array":
                    raw = {"type": "array", "items": item}
                    body = binary.zigzag(count) + b"\x00"
                    expect = [val] * count
                else:
                    raw = {"type": "map", "values": item}
                    keys_ = [b"k%d" % i for i in range(count)]
                    body = binary.zigzag(count) + b"".join(binary.zigzag(len(k)) + k for k in keys_) + b"\x00"
                    expect = {k.decode(): val for k in keys_}
                info = {"schema": raw, "datum": f"<{count} zero-byte items>", "blocks": 1, "form": "zero-byte-items"}
                n_cases += 1
                res.evals += 1
                for stream in ("bytesio", "buffered"):
                    fo = io.BytesIO(bytes(body)) if stream == "bytesio" else io.BufferedReader(io.BytesIO(bytes(body)))
                    try:
                        got = fa.schemaless_reader(fo, raw)
                        if got != expect:
                            res.add(Violation("c03.valid-layout.read", "valid-layout-wrong-value:zero-byte-items", f"{kind} of {count} zero-byte items decoded differently ({stream})", dict(info, mode="many-blocks")))
                    except Exception as e:
                        res.add(Violation("c03.valid-layout.read", f"valid-layout-raised:{type(e).__name__}:zero-byte-items", f"{kind} of {count} zero-byte items ({stream}) raised {type(e).__name__}: {str(e)[:100]}", dict(info, mode="many-blocks")))
    # long collections of annotated items (a per-item conversion must not accumulate anything), in one block and in many
    import datetime as _dt

    for count in (450, 1200, 5000):
        for per_block in (count, 1, 7):
            raw = {"type": "array", "items": {"type": "int", "logicalType": "date"}}
            body = bytearray()
            i = 0
            while i < count:
                m = min(per_block, count - i)
                body += binary.zigzag(m) + b"".join(binary.zigzag(j % 20000) for j in range(i, i + m))
                i += m
            body += b"\x00"
            expect = [_dt.date(1970, 1, 1) + _dt.timedelta(days=j % 20000) for j in range(count)]
            info = {"schema": raw, "datum": f"<{count} dates, {per_block} per block>", "blocks": count, "form": "logical"}
            n_cases += 1
            res.evals += 1
            try:
                got = fa.schemaless_reader(io.BytesIO(bytes(body)), raw)
                if got != expect:
                    res.add(Violation("c03.valid-layout.read", "valid-layout-wrong-value:many-logical-items", f"{count} dates ({per_block} per block) decoded differently", dict(info, mode="many-blocks")))
            except Exception as e:
                res.add(Violation("c03.valid-layout.read", f"valid-layout-raised:{type(e).__name__}:many-logical-items", f"{count} dates ({per_block} per block) raised {type(e).__name__}: {str(e)[:100]}", dict(info, mode="many-blocks")))
    res.distinct = n_cases
    res.sample({"many_blocks": "100 / 1000 / 3000 / 20000 one-item blocks; positive, sized, alternating; array and map; read and skipped"})
    return res


def run_unit(i, tier):
    import fastavro as fa

    res = UnitResult()
    if i == "huge":
        return run_huge(fa, res)
    if i == "many-blocks":
        return run_many_blocks(fa, res)
    raw = family.schemas(tier)[i]
    node, defs = names.resolve(raw)
    lim = 4 if tier == "quick" else 6
    data = [d for d, c in alphabet.data_for(node, defs, 1 if tier == "quick" else 2, hints=False, big=False) if _small(d, lim)]
    if tier == "thorough":
        data = data[:4000]
    # extra shapes aimed at block splitting: 3 and 4 (thorough 5, 6) items
    n = names.deref(node, defs)
    extra = []
    if n["k"] in ("array", "map"):
        b = alphabet.base(node, defs)
        for m in range(3, lim + 1):
            if n["k"] == "array" and b:
                extra.append([b[0]] * m)
            elif n["k"] == "map" and b:
                extra.append({"k%d" % j: b["a"] for j in range(m)})
    seen = set()
    dk = set()
    for d in data + extra:
        kk = key(d)
        if kk in dk:
            continue
        dk.add(kk)
        run_case(fa, res, raw, node, defs, d, tier, seen)
    res.distinct = len(seen)
    res.sample({"schema": raw, "data": len(dk), "example_bytes": next(iter(seen))[1][:40].hex() if seen else ""})
    return res


def replay(case):
    import fastavro as fa

    res = UnitResult()
    if case.get("mode") == "huge":
        return run_huge(fa, res).violations
    if case.get("mode") == "many-blocks":
        return run_many_blocks(fa, res).violations
    raw = case["schema"]
    node, defs = names.resolve(raw)
    W, R = _wrap(raw)
    v, idx = conform.plan(node, defs, case["datum"])
    if case["mode"] == "prefix-last":
        WL, RL = _wrap_last(raw)
        try:
            got = fa.schemaless_reader(io.BytesIO(binary.zigzag(KEEP) + case["buf"]), WL, RL)
            res.add(Violation("c03.prefix.skip", "prefix-skip-last-returned-value", f"returned {short(got)}", case))
        except Exception:
            pass
        return res.violations
    if case["mode"] == "bad-index-options":
        try:
            got = fa.schemaless_reader(io.BytesIO(case["buf"]), raw, **case["options"])
            res.add(Violation("c03.bad-index.read", "bad-index-returned-value:reader-options", f"returned {short(got)}", case))
        except Exception:
            pass
        return res.violations
    if case["mode"] == "bad-index-evolved":
        try:
            got = fa.schemaless_reader(io.BytesIO(case["buf"]), raw, evolve_enums(raw))
            res.add(Violation("c03.bad-index.read", "bad-index-returned-value:evolved-reader", f"returned {short(got)}", case))
        except Exception:
            pass
        return res.violations
    check_bytes(fa, res, (raw, W, R, case), case["buf"], v, case["mode"], set())
    return res.violations


def standalone(case):
    return (
        "import io, sys; sys.path.insert(0, '/repo')\nimport fastavro\n"
        f"schema = {case['schema']!r}\nbuf = {case['buf']!r}\n"
        "print(fastavro.schemaless_reader(io.BytesIO(buf), schema))  # mode: " + str(case.get("mode")) + "\n"
    )
