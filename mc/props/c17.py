"""C17 — results depend only on arguments: no state leaks across calls, inputs
intact (explicit-state search over call histories on a re-imported library,
baselines from fresh interpreter processes)."""
import copy
import decimal
import io
import json
import os
import subprocess
import sys
import tempfile
from concurrent.futures import ThreadPoolExecutor

from ..harness import UnitResult, Violation, short, note_case, VERIF, REPO, setup_fastavro
from ..values import key

LEVEL = "model_checking"
RULE = (
    "alphabet of ~45 public calls built to collide (parse/expand/write/read/resolve/validate/canonical/fingerprint/JSON "
    "write/JSON read with absent defaulted keys/generate under a fixed random source/load_schema/container write+read/"
    "decimal reads of two precisions; two schemas defining the same type names differently (extra field, reordered enum "
    "symbols); shared parsed objects reused by several calls; calls that raise midway). Baseline: each call alone in a "
    "fresh interpreter PROCESS. Search: build(hist) purges and re-imports every fastavro module, rebuilds the argument "
    "pool and replays hist; breadth-first with merging on a canonical snapshot of every mutable global, function default "
    "and class attribute of every fastavro module + the argument pool + decimal.getcontext(); on every transition the "
    "call's result must equal its baseline and every argument object must be deep-equal to its pre-call copy (except a "
    "caller-supplied named_schemas dict). Independently of merging, ALL ordered pairs (quick) / triples over the "
    "state-changing and colliding calls (thorough) are executed. states = distinct snapshots, transitions = calls applied."
    ' Calls include load_schema over a diamond of files and three pairs of calls that differ only in whether the readers / block_readers / Writers they create are alive at the same time (their baselines must agree).'
)
ASSUMPTIONS = [
    "in pure-Python mode all library state lives in module globals, function defaults/closures, class attributes and the objects handed in; the snapshot covers these, and the all-pairs pass does not rely on the snapshot at all",
    "baselines are computed by fresh interpreter processes from the same /repo tree",
    "pure-Python fastavro only (Cython absent)",
]
UNIT_TIMEOUT_S = 1800

A = {"type": "record", "name": "Event", "namespace": "acme", "fields": [
    {"name": "id", "type": "long"}, {"name": "name", "type": "string"},
    {"name": "tags", "type": {"type": "array", "items": "string"}, "default": ["t"]},
    {"name": "attrs", "type": {"type": "map", "values": "int"}, "default": {"k": 1}},
    {"name": "kind", "type": {"type": "enum", "name": "Kind", "symbols": ["A", "B", "C"]}, "default": "A"},
    {"name": "sub", "type": ["null", {"type": "record", "name": "Sub", "fields": [{"name": "x", "type": "int", "default": 3}]}], "default": None},
    {"name": "again", "type": ["null", "Kind"], "default": None}]}
B = {"type": "record", "name": "Event", "namespace": "acme", "fields": [
    {"name": "name", "type": "string"}, {"name": "id", "type": "long"},
    {"name": "kind", "type": {"type": "enum", "name": "Kind", "symbols": ["C", "B", "A"], "default": "B"}, "default": "C"},
    {"name": "note", "type": "string", "default": "n/a"},
    {"name": "sub", "type": ["null", {"type": "record", "name": "Sub", "fields": [{"name": "x", "type": "long", "default": 4}, {"name": "y", "type": "string", "default": "why"}]}], "default": None},
    {"name": "tags", "type": {"type": "array", "items": "string"}, "default": []}]}
A_V2 = {"type": "record", "name": "EventV2", "namespace": "acme2", "aliases": ["acme.Event", "acme.v0.Event"], "fields": [
    {"name": "id", "type": "long"}, {"name": "name", "type": "string"},
    {"name": "kind", "type": {"type": "enum", "name": "KindV2", "aliases": ["acme.Kind"], "symbols": ["A", "B", "C"]}, "default": "A"},
    {"name": "sub", "type": ["null", {"type": "record", "name": "SubV2", "aliases": ["acme.Sub", "legacy.sub.Sub"], "fields": [{"name": "x", "type": "int", "default": 3}]}], "default": None},
    {"name": "again", "type": ["null", "KindV2"], "default": None}]}
# a container file from an older release: its header schema carries a default that does not match the field type
LEGACY_SCHEMA = {"type": "record", "name": "Legacy", "namespace": "acme", "fields": [{"name": "n", "type": "int", "default": "oops"}, {"name": "s", "type": "string"}]}
LEGACY_READER = {"type": "record", "name": "Legacy", "namespace": "acme", "fields": [{"name": "n", "type": "int", "default": 0}, {"name": "s", "type": "string"}]}


def _legacy_file():
    from ..ref import container as rc

    return rc.write([("avro.schema", json.dumps(LEGACY_SCHEMA).encode()), ("avro.codec", b"null")], [(2, False)], b"L" * 16, "null", [(2, b"\x0a\x02a\x02\x00")])


NODE = {"type": "record", "name": "Node", "namespace": "acme", "fields": [
    {"name": "v", "type": "int"}, {"name": "next", "type": ["null", "Node"], "default": None}]}
DEC3 = {"type": "bytes", "logicalType": "decimal", "precision": 3, "scale": 1}
DEC12 = {"type": "bytes", "logicalType": "decimal", "precision": 12, "scale": 0}
DA = {"id": 8192, "name": "evt", "tags": ["a", "b"], "attrs": {"x": 64}, "kind": "C", "sub": {"x": 5}, "again": "B"}
DB = {"name": "evt2", "id": -65, "kind": "A", "note": "hello", "sub": {"x": 2 ** 40, "y": "z"}, "tags": ["q"]}
CHAIN = {"v": 1, "next": {"v": 2, "next": None}}


class Pool:
    def __init__(self, fa, tmpdir):
        self.fa = fa
        self.raw_a = copy.deepcopy(A)
        self.raw_b = copy.deepcopy(B)
        self.raw_node = copy.deepcopy(NODE)
        self.parsed_a = fa.parse_schema(copy.deepcopy(A))
        self.parsed_b = fa.parse_schema(copy.deepcopy(B))
        self.parsed_node = fa.parse_schema(copy.deepcopy(NODE))
        self.dec3 = fa.parse_schema(copy.deepcopy(DEC3))
        self.dec12 = fa.parse_schema(copy.deepcopy(DEC12))
        self.da = copy.deepcopy(DA)
        self.db = copy.deepcopy(DB)
        self.chain = copy.deepcopy(CHAIN)
        # a record whose child type was parsed separately into a shared table and is only referenced
        self._shared = {}
        self.child_piece = fa.parse_schema({"type": "record", "name": "Child", "namespace": "pw", "fields": [{"name": "x", "type": "int"}]}, self._shared)
        self.parent_piecewise = fa.parse_schema({"type": "record", "name": "Parent", "namespace": "pw", "fields": [
            {"name": "c", "type": "pw.Child"}, {"name": "cs", "type": {"type": "array", "items": "Child"}}]}, self._shared)
        self.nested_defaults = fa.parse_schema({"type": "record", "name": "NDf", "namespace": "nd", "fields": [
            {"name": "k", "type": "int"},
            {"name": "aa", "type": {"type": "array", "items": {"type": "array", "items": "int"}}, "default": [[1, 2], [3]]},
            {"name": "ma", "type": {"type": "map", "values": {"type": "array", "items": "string"}}, "default": {"k": ["a", "b"]}},
            {"name": "ra", "type": {"type": "record", "name": "Ra", "fields": [{"name": "xs", "type": {"type": "array", "items": "int"}}]}, "default": {"xs": [7, 8]}}]})
        self.union_ab = fa.parse_schema([{"type": "record", "name": "Ua", "namespace": "un", "fields": [{"name": "x", "type": "int"}]},
                                        {"type": "record", "name": "Ub", "namespace": "un", "fields": [{"name": "x", "type": "int"}]}])
        self.hinted = {"-type": "un.Ub", "x": 5}
        self.dec_s0_p6 = fa.parse_schema({"type": "bytes", "logicalType": "decimal", "precision": 6, "scale": 2})
        self.dec_s0_p20 = fa.parse_schema({"type": "bytes", "logicalType": "decimal", "precision": 20, "scale": 2})
        # a later version of A whose named types were renamed and carry dotted aliases of the old names
        self.reader_aliased = copy.deepcopy(A_V2)
        self.reader_aliased_parsed = fa.parse_schema(copy.deepcopy(A_V2))
        # a mapping that fabricates values for missing keys, lacking defaulted fields of A
        import collections

        self.partial_default = copy.deepcopy(PARTIAL)
        self.dd = collections.defaultdict(int, {"id": 1, "name": "n"})
        self.block = next(iter(fa.block_reader(io.BytesIO(_container_const(fa)))))  # a Block handed to write_block
        self.named = {}  # caller-supplied named-schema dictionary (may be filled)
        self.meta = {"owner": "ops"}  # caller-supplied metadata mapping (the writer adds its reserved entries to it)
        self.tmpdir = tmpdir

    EXEMPT = {"named", "meta", "fa", "tmpdir", "_shared"}

    def objects(self):
        return {k: v for k, v in self.__dict__.items() if k not in self.EXEMPT}


def _sl_write(fa, s, d, **kw):
    fo = io.BytesIO()
    fa.schemaless_writer(fo, s, d, **kw)
    return fo.getvalue()


_BYTES = {}


def _enc(name):
    """Binary inputs for the read calls, produced by the independent encoder."""
    if not _BYTES:
        from ..ref import names as rn, conform, binary

        for nm, s, d in (("a", A, DA), ("b", B, DB), ("node", NODE, CHAIN)):
            node, defs = rn.resolve(s)
            v, idx = conform.plan(node, defs, d)
            _BYTES[nm] = binary.encode(node, defs, v, conform.Indices(idx))
        _BYTES["dec3"] = bytes([4, 0x00, 0x7B])  # len 2: 0x007B = 123 -> 12.3
        n = 123456789012
        raw = n.to_bytes(5, "big", signed=True)
        _BYTES["dec12"] = bytes([len(raw) * 2]) + raw
    return _BYTES[name]


def _gen(fa, schema, n=2):
    import random

    import fastavro.utils as u

    saved = u.random
    u.random = random.Random(12345)
    try:
        return list(u.generate_many(schema, n))
    finally:
        u.random = saved


def _container(fa, schema, recs, **kw):
    fo = io.BytesIO()
    fa.writer(fo, schema, recs, sync_marker=b"C" * 16, **kw)
    return fo.getvalue()


def _block_copy(fa, blk):
    from fastavro._write_py import Writer

    out = io.BytesIO()
    w = Writer(out, copy.deepcopy(A), sync_marker=b"B" * 16, codec="deflate")
    w.write_block(blk)
    w.flush()
    return (out.getvalue(), list(fa.reader(io.BytesIO(out.getvalue()))))


def _block_twice(fa):
    from fastavro._write_py import Writer

    blk = next(iter(fa.block_reader(io.BytesIO(_container_const(fa)))))
    outs = []
    for _ in range(2):
        out = io.BytesIO()
        w = Writer(out, copy.deepcopy(A), sync_marker=b"B" * 16)
        w.write_block(blk)
        w.flush()
        outs.append(out.getvalue())
    return (outs, list(blk), list(blk))


def _load(fa, p):
    from fastavro.schema import load_schema

    return fa.schema.to_parsing_canonical_form(load_schema(os.path.join(p.tmpdir, "acme.Parent.avsc")))


def _load_named(fa, p, name):
    from fastavro.schema import load_schema

    return fa.schema.to_parsing_canonical_form(load_schema(os.path.join(p.tmpdir, name + ".avsc")))


PETS = {"type": "record", "name": "Box", "namespace": "pets", "fields": [{"name": "u", "type": [
    {"type": "record", "name": "Cat", "fields": [{"name": "n", "type": "string"}]}, {"type": "record", "name": "Dog", "fields": [{"name": "n", "type": "string"}]}]}]}
READER_OPTS = [{"return_record_name": True}, {}, {"return_named_type": True}]


def _readers(fa, overlap, ctor="reader"):
    """Container readers created with different options; overlap=True creates all of them before any is consumed.
    The two ways must give the same records (compared between the two calls' baselines, see EQUIV)."""
    data = _container(fa, copy.deepcopy(PETS), [{"u": ("pets.Dog", {"n": "rex"})}, {"u": ("pets.Cat", {"n": "tom"})}])
    mk = lambda o: getattr(fa, ctor)(io.BytesIO(data), **o)  # noqa: E731
    drain = (lambda r: list(r)) if ctor == "reader" else (lambda r: [x for b in r for x in b])
    if overlap:
        rs = [mk(o) for o in READER_OPTS]
        return [drain(r) for r in rs]
    return [drain(mk(o)) for o in READER_OPTS]


def _writers(fa, overlap):
    """Two Writers on distinct streams; overlap=True interleaves their lifetimes and their writes."""
    from fastavro._write_py import Writer

    sa = {"type": "record", "name": "Wa", "fields": [{"name": "a", "type": "long"}]}
    sb = {"type": "record", "name": "Wb", "fields": [{"name": "b", "type": "string"}]}
    ra, rb = [{"a": i} for i in range(3)], [{"b": "s%d" % i} for i in range(3)]
    fa_, fb_ = io.BytesIO(), io.BytesIO()
    marker = b"S" * 16
    if overlap:
        wa = Writer(fa_, sa, sync_marker=marker)
        wa.write(ra[0])
        wb = Writer(fb_, sb, sync_marker=marker)
        for i in range(3):
            if i:
                wa.write(ra[i])
            wb.write(rb[i])
        wb.flush()
        wa.flush()
    else:
        wa = Writer(fa_, sa, sync_marker=marker)
        for r in ra:
            wa.write(r)
        wa.flush()
        wb = Writer(fb_, sb, sync_marker=marker)
        for r in rb:
            wb.write(r)
        wb.flush()
    return [fa_.getvalue(), fb_.getvalue()]


# calls that differ only in whether the objects they create are alive at the same time: results must agree
EQUIV = {"readers_overlap": "readers_sequential", "block_readers_overlap": "block_readers_sequential", "writers_overlap": "writers_sequential"}


def _custom_logical(fa, register):
    """Write and read a value under a logical type of the caller's own ("string" + "rot13"); with register=True the
    caller's conversions are put into the public registries for the duration of the call (and taken out again)."""
    import codecs

    import fastavro.read
    import fastavro.write

    sch = {"type": "record", "name": "Note", "namespace": "cl", "fields": [{"name": "t", "type": {"type": "string", "logicalType": "rot13"}}]}
    W, R = fastavro.write.LOGICAL_WRITERS, fastavro.read.LOGICAL_READERS
    if register:
        W["string-rot13"] = lambda data, schema: codecs.encode(data, "rot13")
        R["string-rot13"] = lambda data, writer_schema, reader_schema: codecs.decode(data, "rot13")
    try:
        fo = io.BytesIO()
        fa.schemaless_writer(fo, sch, {"t": "hello"})
        raw = fo.getvalue()
        return (raw, fa.schemaless_reader(io.BytesIO(raw), sch))
    finally:
        if register:
            W.pop("string-rot13", None)
            R.pop("string-rot13", None)


def _with_default(t, default):
    return {"type": "record", "name": "Dflt", "namespace": "dv", "fields": [{"name": "f", "type": t, "default": default}]}


PARTIAL = {"type": "record", "name": "Drawing", "namespace": "pd", "fields": [
    {"name": "id", "type": "int"},
    {"name": "origin", "type": {"type": "record", "name": "Point", "fields": [{"name": "x", "type": "int"}, {"name": "y", "type": "int"}, {"name": "unit", "type": "string", "default": "mm"},
                                                                             {"name": "tags", "type": {"type": "array", "items": "string"}, "default": []}]}, "default": {"x": 0, "y": 0}},
    {"name": "other", "type": ["Point", "null"], "default": {"x": 1, "y": 1}}]}


def _json_write(fa, s, recs):
    fo = io.StringIO()
    fa.json_writer(fo, s, recs)
    return fo.getvalue()


CALLS = {
    "parse_a_raw": lambda fa, p: fa.schema.to_parsing_canonical_form(fa.parse_schema(p.raw_a)),
    "parse_b_raw": lambda fa, p: fa.schema.to_parsing_canonical_form(fa.parse_schema(p.raw_b)),
    "parse_a_parsed": lambda fa, p: fa.parse_schema(p.parsed_a) is p.parsed_a,
    "parse_a_into_named": lambda fa, p: fa.schema.to_parsing_canonical_form(fa.parse_schema(p.raw_a, p.named)),
    "parse_b_into_named": lambda fa, p: fa.schema.to_parsing_canonical_form(fa.parse_schema(p.raw_b, p.named)),
    "parse_node_parsed_into_named": lambda fa, p: fa.schema.to_parsing_canonical_form(fa.parse_schema(p.parsed_node, p.named)),
    "expand_a": lambda fa, p: json.dumps(fa.schema.expand_schema(p.parsed_a), sort_keys=True, default=str)[:4000],
    "expand_node": lambda fa, p: json.dumps(fa.schema.expand_schema(p.parsed_node), sort_keys=True, default=str)[:4000],
    "expand_b_raw": lambda fa, p: json.dumps(fa.schema.expand_schema(p.raw_b), sort_keys=True, default=str)[:4000],
    "fullname_a": lambda fa, p: fa.schema.fullname(p.raw_a),
    "write_a": lambda fa, p: _sl_write(fa, p.raw_a, p.da),
    "write_a_parsed": lambda fa, p: _sl_write(fa, p.parsed_a, p.da),
    "write_b": lambda fa, p: _sl_write(fa, p.raw_b, p.db),
    "write_b_parsed": lambda fa, p: _sl_write(fa, p.parsed_b, p.db),
    "write_a_strict": lambda fa, p: _sl_write(fa, p.raw_a, p.da, strict=True),
    "write_b_strict": lambda fa, p: _sl_write(fa, p.raw_b, p.db, strict=True),
    "write_a_defaults": lambda fa, p: _sl_write(fa, p.parsed_a, {"id": 1, "name": "n"}),
    "write_b_defaults": lambda fa, p: _sl_write(fa, p.parsed_b, {"id": 1, "name": "n"}),
    "write_node": lambda fa, p: _sl_write(fa, p.parsed_node, p.chain),
    "write_a_bad_last": lambda fa, p: _sl_write(fa, p.parsed_a, dict(p.da, again="not-a-symbol")),
    "write_a_bad_tuple": lambda fa, p: _sl_write(fa, p.raw_a, dict(p.da, sub=("acme.Nope", {"x": 1}))),
    "read_a": lambda fa, p: fa.schemaless_reader(io.BytesIO(_enc("a")), p.parsed_a),
    "read_a_raw": lambda fa, p: fa.schemaless_reader(io.BytesIO(_enc("a")), p.raw_a),
    "read_b": lambda fa, p: fa.schemaless_reader(io.BytesIO(_enc("b")), p.parsed_b),
    "read_node_named": lambda fa, p: fa.schemaless_reader(io.BytesIO(_enc("node")), p.parsed_node, return_record_name=True),
    "read_a_as_b": lambda fa, p: fa.schemaless_reader(io.BytesIO(_enc("a")), p.raw_a, p.raw_b),
    "read_b_as_a": lambda fa, p: fa.schemaless_reader(io.BytesIO(_enc("b")), p.parsed_b, p.parsed_a),
    "read_a_truncated": lambda fa, p: fa.schemaless_reader(io.BytesIO(_enc("a")[:9]), p.parsed_a),
    "validate_a": lambda fa, p: fa.validate(p.da, p.parsed_a, raise_errors=False),
    "validate_a_raw_bad": lambda fa, p: fa.validate(dict(p.da, id="x"), p.raw_a, raise_errors=False),
    "validate_a_raises": lambda fa, p: fa.validate(dict(p.da, kind="Z"), p.raw_a),
    "validate_b_strict": lambda fa, p: fa.validate({"name": "n", "id": 1}, p.raw_b, raise_errors=False, strict=True),
    "validate_many_b": lambda fa, p: fa.validation.validate_many([p.db, p.db], p.parsed_b, raise_errors=False),
    "canon_a": lambda fa, p: fa.schema.to_parsing_canonical_form(p.parsed_a),
    "canon_b_raw": lambda fa, p: fa.schema.to_parsing_canonical_form(p.raw_b),
    "fingerprint": lambda fa, p: (fa.schema.fingerprint('"int"', "CRC-64-AVRO"), fa.schema.fingerprint("é", "MD5")),
    "fingerprint_unknown": lambda fa, p: fa.schema.fingerprint('"int"', "nope"),
    "json_write_a": lambda fa, p: _json_write(fa, p.parsed_a, [p.da, {"id": 2, "name": "m"}]),
    "json_write_b": lambda fa, p: _json_write(fa, p.raw_b, [p.db]),
    "json_read_a_absent": lambda fa, p: list(fa.json_reader(io.StringIO('{"id": 1, "name": "n"}\n{"id": 2, "name": "m"}'), p.parsed_a)),
    "json_read_a_raw_absent": lambda fa, p: list(fa.json_reader(io.StringIO('{"id": 1, "name": "n"}'), p.raw_a)),
    "json_read_b_absent": lambda fa, p: list(fa.json_reader(io.StringIO('{"id": 1, "name": "n"}'), p.parsed_b)),
    "json_read_a_bad": lambda fa, p: list(fa.json_reader(io.StringIO('{"id": 1}'), p.parsed_a)),
    "generate_a": lambda fa, p: _gen(fa, p.parsed_a),
    "generate_b_raw": lambda fa, p: _gen(fa, p.raw_b),
    "generate_node": lambda fa, p: _gen(fa, p.parsed_node, 1),
    "generate_piecewise": lambda fa, p: _gen(fa, p.parent_piecewise, 2),
    "read_a_as_aliased": lambda fa, p: fa.schemaless_reader(io.BytesIO(_enc("a")), p.raw_a, p.reader_aliased),
    "read_a_as_aliased_parsed": lambda fa, p: fa.schemaless_reader(io.BytesIO(_enc("a")), p.parsed_a, p.reader_aliased_parsed),
    "container_read_a_as_aliased": lambda fa, p: list(fa.reader(io.BytesIO(_container_const(fa)), p.reader_aliased)),
    "legacy_read_with_reader_schema": lambda fa, p: list(fa.reader(io.BytesIO(_legacy_file()), copy.deepcopy(LEGACY_READER))),
    "legacy_read_plain": lambda fa, p: list(fa.reader(io.BytesIO(_legacy_file()))),
    "legacy_block_read_plain": lambda fa, p: [list(b) for b in fa.block_reader(io.BytesIO(_legacy_file()))],
    "validate_dd": lambda fa, p: fa.validate(p.dd, p.parsed_a, raise_errors=False),
    "write_dd": lambda fa, p: _sl_write(fa, p.parsed_a, p.dd),
    "container_dd_validated": lambda fa, p: _container(fa, p.raw_a, [p.dd], validator=True),
    "custom_logical_unregistered": lambda fa, p: _custom_logical(fa, False),
    "custom_logical_registered": lambda fa, p: _custom_logical(fa, True),
    # defaults that are equal as numbers but of different JSON types: each is judged on its own
    "parse_int_default_1": lambda fa, p: fa.schema.to_parsing_canonical_form(fa.parse_schema(_with_default("int", 1))),
    "parse_int_default_1.0": lambda fa, p: fa.schema.to_parsing_canonical_form(fa.parse_schema(_with_default("int", 1.0))),
    "parse_int_default_true": lambda fa, p: fa.schema.to_parsing_canonical_form(fa.parse_schema(_with_default("int", True))),
    "parse_boolean_default_true": lambda fa, p: fa.schema.to_parsing_canonical_form(fa.parse_schema(_with_default("boolean", True))),
    "parse_boolean_default_1": lambda fa, p: fa.schema.to_parsing_canonical_form(fa.parse_schema(_with_default("boolean", 1))),
    "parse_double_default_1": lambda fa, p: fa.schema.to_parsing_canonical_form(fa.parse_schema(_with_default("double", 1))),
    "parse_string_default_0": lambda fa, p: fa.schema.to_parsing_canonical_form(fa.parse_schema(_with_default("string", 0))),
    "parse_long_default_0.0": lambda fa, p: fa.schema.to_parsing_canonical_form(fa.parse_schema(_with_default("long", 0.0))),
    "parse_long_default_0": lambda fa, p: fa.schema.to_parsing_canonical_form(fa.parse_schema(_with_default("long", 0))),
    "parse_boolean_default_false": lambda fa, p: fa.schema.to_parsing_canonical_form(fa.parse_schema(_with_default("boolean", False))),
    # a raw schema whose record-typed field carries a PARTIAL default (the caller's default dict must stay as written)
    "parse_partial_default": lambda fa, p: fa.schema.to_parsing_canonical_form(fa.parse_schema(p.partial_default)),
    "write_partial_default": lambda fa, p: _sl_write(fa, p.partial_default, {"id": 1}),
    "validate_partial_default": lambda fa, p: fa.validate({"id": 1}, p.partial_default, raise_errors=False),
    "canon_partial_default": lambda fa, p: fa.schema.to_parsing_canonical_form(p.partial_default),
    # a parse that fails midway, into the caller's dictionary: what the dictionary already held stays
    "parse_failing_into_named": lambda fa, p: fa.schema.to_parsing_canonical_form(fa.parse_schema({"type": "record", "name": "Later", "namespace": "acme", "fields": [
        {"name": "k", "type": {"type": "enum", "name": "Kind", "symbols": ["A", "B", "C"]}}, {"name": "s", "type": {"type": "record", "name": "Sub", "fields": [{"name": "x", "type": "int", "default": 3}]}},
        {"name": "bad", "type": "acme.DoesNotExist"}]}, p.named)),
    "use_named_kind": lambda fa, p: fa.schema.to_parsing_canonical_form(fa.parse_schema({"type": "array", "items": "acme.Kind"}, p.named)),
    # one metadata dict handed to two container writes
    "container_a_shared_meta": lambda fa, p: list(fa.reader(io.BytesIO(_container(fa, p.raw_a, [p.da], metadata=p.meta)))),
    "container_b_shared_meta": lambda fa, p: list(fa.reader(io.BytesIO(_container(fa, p.raw_b, [p.db], metadata=p.meta, codec="deflate")))),
    "load_schema": _load,
    "load_child": lambda fa, p: _load_named(fa, p, "acme.Child"),
    "load_order_diamond": lambda fa, p: _load_named(fa, p, "acme.Order"),
    "load_kind": lambda fa, p: _load_named(fa, p, "acme.Kind"),
    "readers_overlap": lambda fa, p: _readers(fa, True),
    "readers_sequential": lambda fa, p: _readers(fa, False),
    "block_readers_overlap": lambda fa, p: _readers(fa, True, "block_reader"),
    "block_readers_sequential": lambda fa, p: _readers(fa, False, "block_reader"),
    "writers_overlap": lambda fa, p: _writers(fa, True),
    "writers_sequential": lambda fa, p: _writers(fa, False),
    "container_a": lambda fa, p: _container(fa, p.parsed_a, [p.da, {"id": 3, "name": "x"}], codec="deflate"),
    "container_b_validated": lambda fa, p: _container(fa, p.raw_b, [p.db], validator=True),
    "container_a_bad": lambda fa, p: _container(fa, p.raw_a, [p.da, {"id": "bad"}], validator=True),
    "container_read_a": lambda fa, p: list(fa.reader(io.BytesIO(_container_const(fa)))),
    "container_read_a_as_b": lambda fa, p: list(fa.reader(io.BytesIO(_container_const(fa)), p.raw_b)),
    # schemas that only REFER to names some other call defines: must fail identically, whatever ran before
    "read_dangling_sub": lambda fa, p: fa.schemaless_reader(io.BytesIO(b"\x02\x0a\x00"), {"type": "array", "items": "acme.Sub"}),
    "read_dangling_kind": lambda fa, p: fa.schemaless_reader(io.BytesIO(b"\x02"), ["null", "acme.Kind"]),
    "write_dangling_sub": lambda fa, p: _sl_write(fa, {"type": "array", "items": "acme.Sub"}, [{"x": 1}]),
    "validate_dangling_event": lambda fa, p: fa.validate({"k": p.da}, {"type": "map", "values": "acme.Event"}, raise_errors=False),
    "parse_dangling_node": lambda fa, p: fa.schema.to_parsing_canonical_form(fa.parse_schema(["null", "acme.Node"])),
    "json_read_dangling": lambda fa, p: list(fa.json_reader(io.StringIO('[{"x": 1}]'), {"type": "array", "items": "acme.Sub"})),
    "generate_dangling": lambda fa, p: _gen(fa, {"type": "array", "items": "acme.Kind"}, 1),
    "container_read_dangling_reader": lambda fa, p: list(fa.reader(io.BytesIO(_container_const(fa)), {"type": "array", "items": "acme.Sub"})),
    "canon_dangling": lambda fa, p: fa.schema.to_parsing_canonical_form({"type": "map", "values": "pw.Child"}),
    # piecewise-parsed schema objects handed to calls that rebuild a self-contained schema
    "canon_piecewise": lambda fa, p: fa.schema.to_parsing_canonical_form(p.parent_piecewise),
    "container_piecewise": lambda fa, p: _container(fa, p.parent_piecewise, [{"c": {"x": 1}, "cs": [{"x": 2}]}]),
    "container_union_piecewise": lambda fa, p: list(fa.reader(io.BytesIO(_container(fa, [p.child_piece, p.parent_piecewise], [{"x": 5}, {"c": {"x": 1}, "cs": []}])))),
    "write_piecewise": lambda fa, p: _sl_write(fa, p.parent_piecewise, {"c": {"x": 1}, "cs": [{"x": 2}]}),
    "json_write_piecewise": lambda fa, p: _json_write(fa, p.parent_piecewise, [{"c": {"x": 1}, "cs": []}]),
    "json_read_nested_defaults": lambda fa, p: list(fa.json_reader(io.StringIO('{"k": 1}\n{"k": 2}'), p.nested_defaults)),
    "write_nested_defaults": lambda fa, p: _sl_write(fa, p.nested_defaults, {"k": 1}),
    "read_reader_nested_defaults": lambda fa, p: fa.schemaless_reader(io.BytesIO(b"\x02"), {"type": "record", "name": "NDf", "namespace": "nd", "fields": [{"name": "k", "type": "int"}]}, p.nested_defaults),
    # a Block taken from block_reader and used more than once
    "block_copy_pool": lambda fa, p: _block_copy(fa, p.block),
    "block_copy_twice": lambda fa, p: _block_twice(fa),
    "write_hinted_strict": lambda fa, p: _sl_write(fa, p.union_ab, p.hinted, strict=True),
    "write_hinted": lambda fa, p: _sl_write(fa, p.union_ab, p.hinted),
    "write_hinted_strict_allow_default": lambda fa, p: _sl_write(fa, p.union_ab, p.hinted, strict_allow_default=True),
    "validate_hinted": lambda fa, p: fa.validate(p.hinted, p.union_ab, raise_errors=False),
    "dec_p6_read": lambda fa, p: fa.schemaless_reader(io.BytesIO(b"\x06\x01\xe2\x40"), p.dec_s0_p6),
    "dec_p20_read": lambda fa, p: fa.schemaless_reader(io.BytesIO(bytes([2 * 7]) + (12345678901234567).to_bytes(7, "big", signed=True)), p.dec_s0_p20),
    "dec3_read": lambda fa, p: fa.schemaless_reader(io.BytesIO(_enc("dec3")), p.dec3),
    "dec12_read": lambda fa, p: fa.schemaless_reader(io.BytesIO(_enc("dec12")), p.dec12),
    "dec_write": lambda fa, p: _sl_write(fa, p.dec12, decimal.Decimal("-42")),
}
NAMES = sorted(CALLS)
_CC = {}


def _container_const(fa):
    """A container file with schema A built by the independent writer."""
    if "a" not in _CC:
        from ..ref import container

        _CC["a"] = container.write([("avro.schema", json.dumps(A).encode()), ("avro.codec", b"null")], [(2, False)], b"K" * 16, "null",
                                   [(1, _enc("a")), (1, _enc("a"))])
    return _CC["a"]


def canon_result(fn, fa, pool):
    try:
        r = fn(fa, pool)
        return ("ok", repr(_plain(r)))
    except Exception as e:
        return ("exc", type(e).__name__, str(e)[:300])


def _plain(r):
    if isinstance(r, dict):
        return {k: _plain(v) for k, v in r.items() if k not in ("__named_schemas",)}
    if isinstance(r, (list, tuple)):
        return type(r)(_plain(x) for x in r)
    return r


# ---------------------------------------------------------------- snapshots


def snap(o, memo=None, depth=0):
    memo = {} if memo is None else memo
    if isinstance(o, (str, bytes, int, float, bool, type(None), complex)):
        return repr(o)
    if id(o) in memo:
        return f"<cycle {memo[id(o)]}>"
    if depth > 12:
        return "<deep>"
    memo[id(o)] = len(memo)
    try:
        if isinstance(o, dict):
            return "{" + ",".join(f"{snap(k, memo, depth + 1)}:{snap(v, memo, depth + 1)}" for k, v in o.items()) + "}"
        if isinstance(o, (list, tuple)):
            return type(o).__name__ + "[" + ",".join(snap(x, memo, depth + 1) for x in o) + "]"
        if isinstance(o, (set, frozenset)):
            return "set{" + ",".join(sorted(snap(x, memo, depth + 1) for x in o)) + "}"
        if isinstance(o, (io.BytesIO, io.StringIO)):
            return f"<{type(o).__name__} pos={o.tell()} value={o.getvalue()!r}>"
        if isinstance(o, decimal.Context):
            return f"Context({o.prec},{o.rounding},{o.Emin},{o.Emax},{o.capitals},{o.clamp},{sorted(map(str, o.flags))},{sorted(map(str, o.traps))})"
        if callable(o) and hasattr(o, "__qualname__"):
            return f"<fn {getattr(o, '__module__', '')}.{o.__qualname__}>"
        if isinstance(o, (bytearray,)):
            return repr(o)
        if hasattr(o, "__dict__"):
            return f"<{type(o).__module__}.{type(o).__name__} {snap(o.__dict__, memo, depth + 1)}>"
        r = repr(o)
        if " at 0x" in r:
            r = r.split(" at 0x")[0]  # identity, not state
        return f"<{type(o).__module__}.{type(o).__name__} {r[:120]}>"
    finally:
        del memo[id(o)]


def library_snapshot():
    import types

    parts = []
    for name in sorted(sys.modules):
        if not (name == "fastavro" or name.startswith("fastavro.")):
            continue
        m = sys.modules[name]
        if m is None:
            continue
        for attr in sorted(vars(m)):
            if attr.startswith("__") and attr.endswith("__"):
                continue
            v = vars(m)[attr]
            if isinstance(v, types.ModuleType):
                continue
            if isinstance(v, type):
                if getattr(v, "__module__", "").startswith("fastavro"):
                    for ca in sorted(vars(v)):
                        cv = vars(v)[ca]
                        if isinstance(cv, (dict, list, set)):
                            parts.append(f"{name}.{attr}.{ca}={snap(cv)}")
                        elif isinstance(cv, types.FunctionType):
                            parts.append(f"{name}.{attr}.{ca}.defaults={snap(cv.__defaults__)}{snap(cv.__kwdefaults__)}")
                continue
            if isinstance(v, types.FunctionType):
                if getattr(v, "__module__", "") == name:
                    cl = [snap(c.cell_contents) for c in (v.__closure__ or ()) if _has_contents(c)]
                    parts.append(f"{name}.{attr}.defaults={snap(v.__defaults__)}{snap(v.__kwdefaults__)}{cl}")
                continue
            parts.append(f"{name}.{attr}={snap(v)}")
    parts.append("decimal.getcontext=" + snap(decimal.getcontext()))
    return parts


def _has_contents(c):
    try:
        c.cell_contents
        return True
    except ValueError:
        return False


def purge():
    for name in list(sys.modules):
        if name == "fastavro" or name.startswith("fastavro."):
            del sys.modules[name]
    decimal.setcontext(decimal.Context())


def build(hist, tmpdir):
    """Fresh library, fresh pool, replay hist (results of the replayed calls are not re-checked)."""
    purge()
    fa = setup_fastavro()
    import fastavro.schema, fastavro.validation, fastavro.utils  # noqa

    pool = Pool(fa, tmpdir)
    for c in hist:
        canon_result(CALLS[c], fa, pool)
    return fa, pool


# ---------------------------------------------------------------- baselines

_BASE = {}


def _baseline_one(name):
    code = (
        "import sys, json, tempfile\n"
        f"sys.path[:0] = [{VERIF!r}]\n"
        "from mc.harness import setup_fastavro\n"
        "fa = setup_fastavro()\n"
        "import fastavro.schema, fastavro.validation, fastavro.utils\n"
        "from mc.props import c17\n"
        "with tempfile.TemporaryDirectory(prefix='verif-c17-') as t:\n"
        "    c17.write_repo(t)\n"
        "    p = c17.Pool(fa, t)\n"
        f"    print(json.dumps(c17.canon_result(c17.CALLS[{name!r}], fa, p)))\n"
    )
    env = dict(os.environ, PYTHONHASHSEED="0", TZ="UTC")
    r = subprocess.run([sys.executable, "-c", code], capture_output=True, text=True, env=env, timeout=120)
    if r.returncode != 0:
        raise RuntimeError(f"baseline process for {name} failed: {r.stderr[-500:]}")
    return tuple(json.loads(r.stdout.strip().splitlines()[-1]))


def write_repo(tmpdir):
    files = {
        "acme.Parent": {"type": "record", "name": "Parent", "namespace": "acme", "fields": [
            {"name": "c", "type": "Child"}, {"name": "cs", "type": {"type": "array", "items": "acme.Child"}}, {"name": "k", "type": "Kind"}]},
        "acme.Child": {"type": "record", "name": "Child", "namespace": "acme", "fields": [{"name": "k", "type": "Kind"}]},
        "acme.Kind": {"type": "enum", "name": "Kind", "namespace": "acme", "symbols": ["X", "Y"]},
        # a diamond: uses the shared dependency Kind BEFORE the intermediate Child that also depends on it
        "acme.Order": {"type": "record", "name": "Order", "namespace": "acme", "fields": [
            {"name": "sample", "type": "acme.Kind"}, {"name": "child", "type": "acme.Child"}, {"name": "more", "type": {"type": "array", "items": "Child"}}]},
    }
    for n, s in files.items():
        with open(os.path.join(tmpdir, n + ".avsc"), "w") as f:
            json.dump(s, f)


def units(tier):
    with ThreadPoolExecutor(16) as ex:
        for n, r in zip(NAMES, ex.map(_baseline_one, NAMES)):
            _BASE[n] = r
    us = [("bfs",)]
    us += [("pairs", n) for n in NAMES]
    if tier == "thorough":
        core = COLLIDERS
        us += [("triples", a, b) for a in core for b in core]
    return us


COLLIDERS = ["parse_a_into_named", "parse_b_into_named", "expand_a", "expand_node", "write_a_strict", "write_b_strict", "write_a", "write_b",
             "read_a_as_b", "read_b_as_a", "json_read_a_absent", "json_read_a_raw_absent", "json_read_b_absent", "generate_a", "generate_b_raw",
             "dec3_read", "dec12_read", "write_a_bad_last", "container_a", "container_read_a_as_b", "validate_a_raises", "load_schema",
             "parse_node_parsed_into_named", "write_node", "read_a", "read_b", "read_dangling_sub", "canon_piecewise", "container_piecewise",
             "container_union_piecewise", "container_read_a", "generate_dangling", "load_child", "load_order_diamond", "readers_overlap", "writers_overlap", "read_a_as_aliased", "legacy_read_with_reader_schema", "legacy_read_plain", "validate_dd", "write_dd", "custom_logical_unregistered", "custom_logical_registered", "parse_int_default_1", "parse_int_default_1.0", "parse_boolean_default_1", "parse_boolean_default_true", "parse_partial_default", "write_partial_default", "parse_failing_into_named", "use_named_kind", "container_a_shared_meta", "container_b_shared_meta", "json_read_nested_defaults", "block_copy_twice", "block_copy_pool", "write_hinted_strict", "write_hinted", "dec_p6_read", "dec_p20_read"]


def step_check(res, fa, pool, hist, call):
    """Apply `call` after hist; compare with baseline, check inputs intact."""
    before = {k: snap(v) for k, v in pool.objects().items()}
    named_before = list(pool.named)
    got = canon_result(CALLS[call], fa, pool)
    res.evals += 1
    res.transitions += 1
    info = {"history": list(hist), "call": call}
    if got != _BASE[call]:
        res.add(Violation("c17.result", f"result-differs:{call}|after:{hist[-1] if hist else '-'}",
                          f"{call} after {list(hist)} returned {short(got, 400)}; first in a fresh interpreter it returns {short(_BASE[call], 400)}", info))
    lost = [n for n in named_before if n not in pool.named]
    if lost:
        res.add(Violation("c17.input-intact", f"named-schemas-entries-removed:{call}", f"{call} removed {lost} from the caller's named-schema dictionary | after {list(hist)}", info))
    after = {k: snap(v) for k, v in pool.objects().items()}
    for k in before:
        if before[k] != after[k]:
            res.add(Violation("c17.input-intact", f"argument-modified:{call}:{k}", f"{call} modified its argument object '{k}': {short(before[k], 200)} -> {short(after[k], 200)} | after {list(hist)}", info))


def run_unit(unit, tier):
    res = UnitResult()
    with tempfile.TemporaryDirectory(prefix="verif-c17-") as tmpdir:
        write_repo(tmpdir)
        if unit[0] == "bfs":
            for a, b in EQUIV.items():
                res.evals += 1
                if _BASE[a] != _BASE[b]:
                    res.add(Violation("c17.overlap", f"overlapping-lifetimes-differ:{a}", f"{a} returns {short(_BASE[a], 400)} but {b} (same objects, one at a time) returns {short(_BASE[b], 400)}",
                                      {"history": [], "call": a}))
            fa, pool = build([], tmpdir)
            init = key(library_snapshot() + [snap(pool.objects()), snap(pool.named)])
            seen = {init}
            frontier = [[]]
            depth = 0
            maxdepth = 3 if tier == "quick" else 4
            while frontier and depth < maxdepth:
                depth += 1
                nxt = []
                for hist in frontier:
                    for c in NAMES:
                        note_case({"history": hist, "call": c})
                        fa, pool = build(hist, tmpdir)
                        step_check(res, fa, pool, hist, c)
                        k = key(library_snapshot() + [snap(pool.objects()), snap(pool.named)])
                        if k not in seen:
                            seen.add(k)
                            nxt.append(hist + [c])
                res.stats[f"new_states_depth_{depth}"] += len(nxt)
                frontier = nxt
            res.states = len(seen)
            res.stats["frontier_left"] = len(frontier)
            res.stats["bfs_depth"] = depth
            res.sample({"mode": "bfs", "states": len(seen), "depth": depth, "frontier_left": [h for h in frontier[:3]]})
        elif unit[0] == "pairs":
            first = unit[1]
            for c in NAMES:
                note_case({"history": [first], "call": c})
                fa, pool = build([first], tmpdir)
                step_check(res, fa, pool, [first], c)
            res.sample({"mode": "pairs", "history": [first, NAMES[0]]})
        else:
            a, b = unit[1], unit[2]
            for c in COLLIDERS:
                note_case({"history": [a, b], "call": c})
                fa, pool = build([a, b], tmpdir)
                step_check(res, fa, pool, [a, b], c)
    res.distinct = res.evals
    res.stats["traces_validated"] += res.evals
    return res


def finalize(total, sets, tier):
    total.states = max(total.states, 1)


def coverage_extra(total, sets, tier):
    return {"calls_in_alphabet": len(NAMES), "frontier_closed": total.stats.get("frontier_left", 1) == 0,
            "bfs_depth": total.stats.get("bfs_depth")}


def replay(case):
    if not _BASE:
        for n in set([case["call"]]):
            _BASE[n] = _baseline_one(n)
    res = UnitResult()
    with tempfile.TemporaryDirectory(prefix="verif-c17-") as tmpdir:
        write_repo(tmpdir)
        fa, pool = build(case["history"], tmpdir)
        step_check(res, fa, pool, case["history"], case["call"])
    return res.violations
