"""C04 — container files are self-describing and round-trip under every codec,
block size, metadata, schema form and stream kind."""
import copy
import itertools
import io
import os
import tempfile

from ..harness import UnitResult, Violation, short, note_case
from .. import cont
from ..values import same
from ..ref import names, conform, binary, canon

LEVEL = "exploration"
RULE = (
    "schemas: one of every top-level kind (8 primitives, record with union/enum/by-name fields, enum, fixed, array, map, "
    "union, record without fields, record of a null field, recursive record, wrapped primitive) x record lists (empty, one, "
    "mixed, seven, one record larger than the interval) x codec in {null, deflate, bzip2, xz} (+snappy/zstandard/lz4 if "
    "importable) x sync_interval: EVERY value 1..total+1 when the payload is <=48 bytes, else {1, each cumulative record "
    "boundary and boundary+1, 16000, 2^31}; then, at intervals {1, 16000}, one-axis deviations: compression level {1, 9}, "
    "metadata {one key, non-ASCII key/value, a dict object reused across codecs}, parsed schema, random sync marker, stream "
    "kind {real file, read-only wrapper exposing only read, write-only wrapper exposing only write/flush/seekable()->False}. "
    "Oracle: records bit-equal to the reference normalisation in order; writer_schema has the reference canonical form; "
    ".codec/.metadata as supplied; wrapper streams report any other method touched. distinct_nontrivial = distinct "
    "(schema, records, codec, interval, axis) configurations; files with >=1 record are non-trivial. Scenario units add: a "
    "top-level union given as raw, parsed as a whole, and as separately parsed records sharing a name table with cross "
    "references; two/three readers open at once (headers parsed first, records pulled alternately) over files that define "
    "the same type names differently."
    ' Scenario units also cover: 24 different schemas parsed, written and dropped in a row (nothing remembered per short-lived schema object); readers and block_readers created with four different option sets before any is consumed, every ordered pair; two Writers alive at once on distinct streams with alternating writes, three sync intervals.'
)
ASSUMPTIONS = [
    "expected values from mc/ref/conform.normalise; canonical form from mc/ref/canon (Apache vectors)",
    "snappy, zstandard, lz4 are recorded as unavailable when their library does not import (none does in this image)",
    "pure-Python fastavro only (Cython absent)",
]
UNIT_TIMEOUT_S = 900

STREAM_API = {
    "read", "read1", "readline", "readlines", "readinto", "readable", "seek", "tell", "truncate", "fileno", "close",
    "getvalue", "getbuffer", "writelines", "detach", "isatty", "peek", "write", "flush", "seekable", "writable", "name", "mode",
}


class WriteOnly:
    """A buffering, non-seekable sink (pipe / socket file): what was written reaches the consumer
    (`buf`) only when flush() is called."""

    def __init__(self):
        self.buf = bytearray()
        self.unflushed = bytearray()
        self.touched = []

    def write(self, b):
        self.unflushed += b
        return len(b)

    def flush(self):
        self.buf += self.unflushed
        del self.unflushed[:]

    def seekable(self):
        return False

    def __getattr__(self, name):
        if name in STREAM_API:
            self.touched.append(name)
        raise AttributeError(name)


class ReadOnly:
    def __init__(self, data):
        self._b = io.BytesIO(data)
        self.touched = []

    def read(self, n=-1):
        return self._b.read(n)

    def __getattr__(self, name):
        if name in STREAM_API:
            self.touched.append(name)
        raise AttributeError(name)


def units(tier):
    canon.selftest()
    import fastavro.write as w

    codecs, _ = cont.available_codecs(w)
    return [(si, c) for si in range(len(cont.top_schemas())) for c in codecs] + [("scenarios", c) for c in codecs]


POINT = {"type": "record", "name": "Point", "namespace": "geo", "fields": [{"name": "x", "type": "int"}, {"name": "y", "type": "int", "default": 0}]}
SEGMENT = {"type": "record", "name": "Segment", "namespace": "geo", "fields": [{"name": "a", "type": "Point"}, {"name": "b", "type": "geo.Point"},
                                                                                {"name": "via", "type": {"type": "array", "items": "Point"}, "default": []}]}
TWIN_A = {"type": "record", "name": "Order", "namespace": "tw", "fields": [
    {"name": "item", "type": {"type": "record", "name": "Item", "fields": [{"name": "qty", "type": "int"}, {"name": "code", "type": "string"}]}},
    {"name": "more", "type": {"type": "array", "items": "Item"}}, {"name": "next", "type": ["null", "Order"], "default": None}]}
TWIN_B = {"type": "record", "name": "Order", "namespace": "tw", "fields": [
    {"name": "item", "type": {"type": "record", "name": "Item", "fields": [{"name": "code", "type": "string"}, {"name": "qty", "type": "int"}]}},
    {"name": "more", "type": {"type": "array", "items": "Item"}}, {"name": "next", "type": ["null", "Order"], "default": None}]}


def run_scenarios(fa, res, codec, tier):
    """Sequences rather than single files: a top-level union of separately parsed records that refer
    to each other; several readers alive at once over files that define the same names differently."""
    keys = set()
    marker = cont.sync_marker()
    # (1) union of parsed records with a cross reference, read from the bytes alone
    raw_union = [copy.deepcopy(POINT), copy.deepcopy(SEGMENT)]
    node, defs = names.resolve(raw_union)
    recs = [{"x": 1, "y": 2}, {"a": {"x": 1}, "b": {"x": -1, "y": 5}, "via": [{"x": 64}]}, {"x": 0}]
    exp = cont.expected(node, defs, recs)
    exp_canon = canon.canonical((node, defs))
    for form in ("raw", "parsed-shared-table", "parsed-whole"):
        for iv in (1, 16000):
            if form == "raw":
                sa = copy.deepcopy(raw_union)
            elif form == "parsed-whole":
                sa = fa.parse_schema(copy.deepcopy(raw_union))
            else:
                table = {}
                sa = [fa.parse_schema(copy.deepcopy(POINT), table), fa.parse_schema(copy.deepcopy(SEGMENT), table)]
            info = {"schema": raw_union, "records": recs, "codec": codec, "sync_interval": iv, "axis": "scenario:union-" + form}
            note_case(info)
            keys.add(("union", form, iv))
            res.evals += 1
            fo = io.BytesIO()
            try:
                fa.writer(fo, sa, copy.deepcopy(recs), codec=codec, sync_interval=iv, sync_marker=marker)
            except Exception as e:
                res.add(Violation("c04.write", f"write-raised:{type(e).__name__}:scenario", f"writer raised {type(e).__name__}: {e} | {short(info, 400)}", info))
                continue
            check_read(res, fa, "read", info, io.BytesIO(fo.getvalue()), exp, exp_canon, codec, {})
    # (1b) a record that fails part-way inside a sequence of writes: the accepted records must read back
    from fastavro._write_py import Writer

    S2 = {"type": "record", "name": "Rw", "fields": [{"name": "a", "type": "long"}, {"name": "b", "type": "string"}, {"name": "c", "type": ["null", "int"], "default": None}]}
    n2, d2 = names.resolve(S2)
    good = [{"a": 1, "b": "x", "c": 5}, {"a": -70, "b": "yy" * 40}, {"a": 8192, "b": ""}]
    bads = [{"a": 1, "b": 5}, {"a": 1, "b": "ok", "c": "no"}, {"a": "no", "b": "x"}]
    for iv in (1, 30, 16000):
        for validator in (False, True):
            for where in (0, 1, 2):
                info = {"schema": S2, "records": good, "codec": codec, "sync_interval": iv, "axis": f"scenario:failed-write-at-{where}-validator-{validator}"}
                note_case(info)
                keys.add(("failed-write", iv, validator, where))
                res.evals += 1
                fo = io.BytesIO()
                try:
                    w = Writer(fo, copy.deepcopy(S2), codec=codec, sync_interval=iv, sync_marker=marker, validator=validator)
                    for i, g in enumerate(good):
                        if i == where:
                            for b in bads:
                                try:
                                    w.write(copy.deepcopy(b))
                                except Exception:
                                    pass
                        w.write(copy.deepcopy(g))
                    w.flush()
                except Exception as e:
                    res.add(Violation("c04.write", f"write-raised:{type(e).__name__}:scenario", f"{type(e).__name__}: {e} | {short(info, 300)}", info))
                    continue
                check_read(res, fa, "read", info, io.BytesIO(fo.getvalue()), cont.expected(n2, d2, good), canon.canonical((n2, d2)), codec, {})
    # (2) readers alive at the same time
    files = {}
    datum = {"item": {"qty": 3, "code": "abc"}, "more": [{"qty": 70, "code": "xyz"}], "next": {"item": {"qty": 1, "code": "n"}, "more": [], "next": None}}
    expd = {}
    for nm, sch in (("A", TWIN_A), ("B", TWIN_B)):
        fo = io.BytesIO()
        fa.writer(fo, copy.deepcopy(sch), [copy.deepcopy(datum), copy.deepcopy(datum)], codec=codec, sync_interval=1, sync_marker=marker)
        files[nm] = fo.getvalue()
        n2, d2 = names.resolve(sch)
        expd[nm] = cont.expected(n2, d2, [datum, datum])
    for order in (("A", "B"), ("B", "A"), ("A", "B", "A")):
        info = {"schema": TWIN_A, "records": [datum], "codec": codec, "sync_interval": 1, "axis": "scenario:readers-alive-" + "".join(order)}
        note_case(info)
        keys.add(("alive", order))
        res.evals += 1
        try:
            readers = [fa.reader(io.BytesIO(files[nm])) for nm in order]   # all headers parsed first
            got = [[] for _ in order]
            for step in range(2):                                          # then records pulled alternately
                for i, r in enumerate(readers):
                    got[i].append(next(r))
            for i, nm in enumerate(order):
                if not all(same(a, b) for a, b in zip(got[i], expd[nm])):
                    res.add(Violation("c04.read", "records-differ:readers-alive", f"with readers {order} open at once, reader {i} ({nm}) returned {short(got[i], 300)}, written {short(expd[nm], 300)}", info))
        except Exception as e:
            res.add(Violation("c04.read", f"read-raised:{type(e).__name__}:readers-alive", f"with readers {order} open at once: {type(e).__name__}: {e}", info))
    # (3) parse - write - drop, many different schemas in a row: nothing may be remembered per (short-lived) schema object
    import gc

    produced = []
    for n in range(24):
        sch = {"type": "record", "name": "T%d" % n, "fields": [{"name": "k%d" % n, "type": "long"}, {"name": "s", "type": "string", "default": "d%d" % n}] +
               ([{"name": "e", "type": {"type": "enum", "name": "E%d" % (n % 3), "symbols": ["A", "B%d" % n]}}] if n % 2 else [])}
        recs3 = [dict({"k%d" % n: n * 1000 + i, "s": "v%d" % i}, **({"e": "B%d" % n} if n % 2 else {})) for i in range(3)]
        parsed = fa.parse_schema(copy.deepcopy(sch))
        fo = io.BytesIO()
        try:
            fa.writer(fo, parsed, copy.deepcopy(recs3), codec=codec, sync_marker=marker)
        except Exception as e:
            info = {"schema": sch, "records": recs3, "codec": codec, "sync_interval": 16000, "axis": "scenario:parse-write-drop"}
            res.add(Violation("c04.write", f"write-raised:{type(e).__name__}:scenario", f"writer raised {type(e).__name__}: {e} | {short(info, 400)}", info))
            continue
        produced.append((sch, recs3, fo.getvalue()))
        del parsed, fo
        gc.collect()
    for sch, recs3, data in produced:
        n3, d3 = names.resolve(sch)
        info = {"schema": sch, "records": recs3, "codec": codec, "sync_interval": 16000, "axis": "scenario:parse-write-drop"}
        note_case(info)
        keys.add(("churn", sch["name"]))
        res.evals += 1
        check_read(res, fa, "read", info, io.BytesIO(data), cont.expected(n3, d3, recs3), canon.canonical((n3, d3)), codec, {})
    # (4) readers alive at the same time, created with different options: each keeps its own
    US = {"type": "record", "name": "Box", "fields": [{"name": "u", "type": [{"type": "record", "name": "Cat", "fields": [{"name": "n", "type": "string"}]},
                                                                                {"type": "record", "name": "Dog", "fields": [{"name": "n", "type": "string"}]}]}]}
    fo = io.BytesIO()
    fa.writer(fo, copy.deepcopy(US), [{"u": ("Dog", {"n": "rex"})}, {"u": ("Cat", {"n": "tom"})}], codec=codec, sync_interval=1, sync_marker=marker)
    ufile = fo.getvalue()
    optsets = [{}, {"return_record_name": True}, {"return_named_type": True}, {"return_record_name": True, "return_record_name_override": True}]
    alone = [list(fa.reader(io.BytesIO(ufile), **o)) for o in optsets]
    for ctor in ("reader", "block_reader"):
        for i, j in itertools.permutations(range(len(optsets)), 2):
            info = {"schema": US, "records": [], "codec": codec, "sync_interval": 1, "axis": f"scenario:readers-alive-options-{ctor}-{i}-{j}"}
            note_case(info)
            keys.add(("alive-options", ctor, i, j))
            res.evals += 1
            try:
                mk = (lambda o: fa.reader(io.BytesIO(ufile), **o)) if ctor == "reader" else (lambda o: fa.block_reader(io.BytesIO(ufile), **o))
                ra = mk(optsets[i])
                rb = mk(optsets[j])   # created before ra is consumed
                ga = list(ra) if ctor == "reader" else [r for blk in ra for r in blk]
                gb = list(rb) if ctor == "reader" else [r for blk in rb for r in blk]
            except Exception as e:
                res.add(Violation("c04.read", f"read-raised:{type(e).__name__}:readers-alive-options", f"{type(e).__name__}: {e} | {short(info, 200)}", info))
                continue
            if not (same(ga, alone[i]) and same(gb, alone[j])):
                res.add(Violation("c04.read", "records-differ:readers-alive-options", f"{ctor}s created with {optsets[i]} and {optsets[j]} before either was consumed returned {short(ga, 200)} / {short(gb, 200)}; alone they return {short(alone[i], 200)} / {short(alone[j], 200)}", info))
    # (5) writers alive at the same time on different streams, records submitted alternately
    WS = [{"type": "record", "name": "Wa", "fields": [{"name": "a", "type": "long"}]}, {"type": "record", "name": "Wb", "fields": [{"name": "b", "type": "string"}, {"name": "c", "type": "int", "default": 3}]}]
    wrecs = [[{"a": i * 100} for i in range(5)], [{"b": "s%d" % i, "c": i} for i in range(5)]]
    for iv in (1, 40, 16000):
        for pattern in ("create-create-alternate", "create-write-create-alternate"):
            info = {"schema": WS, "records": wrecs, "codec": codec, "sync_interval": iv, "axis": f"scenario:writers-alive-{pattern}"}
            note_case(info)
            keys.add(("writers-alive", iv, pattern))
            res.evals += 1
            fos = [io.BytesIO(), io.BytesIO()]
            try:
                w0 = Writer(fos[0], copy.deepcopy(WS[0]), codec=codec, sync_interval=iv, sync_marker=marker)
                start = 0
                if pattern == "create-write-create-alternate":
                    w0.write(copy.deepcopy(wrecs[0][0]))
                    start = 1
                w1 = Writer(fos[1], copy.deepcopy(WS[1]), codec=codec, sync_interval=iv, sync_marker=marker)
                for i in range(5):
                    if i >= start:
                        w0.write(copy.deepcopy(wrecs[0][i]))
                    w1.write(copy.deepcopy(wrecs[1][i]))
                w1.flush()
                w0.flush()
            except Exception as e:
                res.add(Violation("c04.write", f"write-raised:{type(e).__name__}:scenario", f"{type(e).__name__}: {e} | {short(info, 300)}", info))
                continue
            for k in (0, 1):
                nk, dk = names.resolve(WS[k])
                check_read(res, fa, "read", dict(info, axis=info["axis"] + f"-file{k}"), io.BytesIO(fos[k].getvalue()), cont.expected(nk, dk, wrecs[k]), canon.canonical((nk, dk)), codec, {})
    # (6) blocks beyond one MiB: a single record above 1 MiB, and many small records in one block of more than 1 MiB
    BS = {"type": "record", "name": "Blob", "fields": [{"name": "i", "type": "int"}, {"name": "b", "type": "bytes"}, {"name": "s", "type": "string"}]}
    nb, db = names.resolve(BS)
    for label, recs6, iv in (("one-record-above-1MiB", [{"i": 1, "b": bytes(range(256)) * 4100, "s": "x"}, {"i": 2, "b": b"", "s": "y"}], 16000),
                             ("many-records-one-block-above-1MiB", [{"i": i, "b": bytes([i % 251]) * 3000, "s": "s%d" % i} for i in range(400)], 1 << 30),
                             ("string-above-1MiB", [{"i": 3, "b": b"q", "s": "é" * 600000}], 1),
                             # long runs that compress to almost nothing, a few bytes past multiples of 64 KiB
                             ("zeros-64KiB+1", [{"i": 4, "b": bytes(65536 + 1 - 8), "s": "z"}], 1), ("zeros-64KiB+2", [{"i": 4, "b": bytes(65536 + 2), "s": ""}], 1),
                             ("zeros-128KiB+3", [{"i": 4, "b": bytes(131072 + 3), "s": ""}, {"i": 5, "b": bytes(65537), "s": "t"}], 16000),
                             ("zeros-many-small", [{"i": i, "b": bytes(4093), "s": ""} for i in range(40)], 1 << 30)):
        info = {"schema": BS, "records": f"<{label}>", "codec": codec, "sync_interval": iv, "axis": "scenario:" + label}
        note_case(info)
        keys.add(("big", label))
        res.evals += 1
        fo = io.BytesIO()
        try:
            fa.writer(fo, copy.deepcopy(BS), recs6, codec=codec, sync_interval=iv, sync_marker=marker)
            got = list(fa.reader(io.BytesIO(fo.getvalue())))
        except Exception as e:
            res.add(Violation("c04.read", f"read-raised:{type(e).__name__}:big-block", f"{label} under {codec}: {type(e).__name__}: {e}", info))
            continue
        if got != recs6:
            res.add(Violation("c04.read", "records-differ:big-block", f"{label} under {codec}: {len(got)} records read back, first difference at {next((i for i, (a, b) in enumerate(zip(got, recs6)) if a != b), None)}", info))
    # (7) a codec name in another letter case is either refused or yields a file that reads back (and names a codec readers know)
    for spelled in (codec.capitalize(), codec.upper(), codec + " "):
        if spelled == codec:
            continue
        info = {"schema": BS, "records": "<2 small>", "codec": spelled, "sync_interval": 16000, "axis": "scenario:codec-spelling"}
        note_case(info)
        keys.add(("spelling", spelled))
        res.evals += 1
        fo = io.BytesIO()
        small = [{"i": 1, "b": b"a", "s": "x"}, {"i": 2, "b": b"", "s": ""}]
        try:
            fa.writer(fo, copy.deepcopy(BS), small, codec=spelled, sync_marker=marker)
        except Exception:
            continue  # refused: nothing was promised
        try:
            got = list(fa.reader(io.BytesIO(fo.getvalue())))
        except Exception as e:
            got = f"{type(e).__name__}: {e}"
        if got != small:
            res.add(Violation("c04.read", "records-differ:codec-spelling", f"writer accepted codec={spelled!r} but the file reads back as {short(got, 200)}", info))
    # (8) a schema attribute holding a lone surrogate (JSON text with an unpaired \\ud83c escape loads to exactly this)
    SD = {"type": "record", "name": "Doc", "doc": "cut emoji \ud83c here", "fields": [{"name": "a", "type": "int", "doc": "\udc80"}]}
    nd_, dd_ = names.resolve({"type": "record", "name": "Doc", "fields": [{"name": "a", "type": "int"}]})
    info = {"schema": "<Doc with lone surrogate in doc>", "records": [{"a": 1}], "codec": codec, "sync_interval": 16000, "axis": "scenario:surrogate-in-doc"}
    note_case(info)
    keys.add(("surrogate-doc",))
    res.evals += 1
    fo = io.BytesIO()
    try:
        fa.writer(fo, copy.deepcopy(SD), [{"a": 1}, {"a": -64}], codec=codec, sync_marker=marker)
        check_read(res, fa, "read", info, io.BytesIO(fo.getvalue()), cont.expected(nd_, dd_, [{"a": 1}, {"a": -64}]), canon.canonical((nd_, dd_)), codec, {})
    except Exception as e:
        res.add(Violation("c04.write", f"write-raised:{type(e).__name__}:scenario", f"schema with a lone surrogate in a doc attribute: {type(e).__name__}: {e}", info))
    # (9) records handed over as a one-shot iterable, with and without validation
    small9 = [{"i": i, "b": bytes([i]), "s": "r%d" % i} for i in range(7)]
    for validator in (False, True):
        for kind9 in ("generator", "iterator", "map-object", "reader"):
            info = {"schema": BS, "records": "<7 small>", "codec": codec, "sync_interval": 16000, "axis": f"scenario:one-shot-{kind9}-validator-{validator}"}
            note_case(info)
            keys.add(("one-shot", kind9, validator))
            res.evals += 1
            if kind9 == "generator":
                src = (copy.deepcopy(r) for r in small9)
            elif kind9 == "iterator":
                src = iter(copy.deepcopy(small9))
            elif kind9 == "map-object":
                src = map(dict, small9)
            else:
                f0 = io.BytesIO()
                fa.writer(f0, copy.deepcopy(BS), copy.deepcopy(small9), sync_marker=marker)
                src = fa.reader(io.BytesIO(f0.getvalue()))
            fo = io.BytesIO()
            try:
                fa.writer(fo, copy.deepcopy(BS), src, codec=codec, validator=validator, sync_marker=marker)
                got = list(fa.reader(io.BytesIO(fo.getvalue())))
            except Exception as e:
                got = f"{type(e).__name__}: {e}"
            if got != small9:
                res.add(Violation("c04.read", "records-differ:one-shot-iterable", f"7 records given as a {kind9} (validator={validator}) read back as {short(got, 200)}", info))
    # (10) what a reader reports belongs to the caller: editing it must not change how the next reader decodes
    fo = io.BytesIO()
    fa.writer(fo, copy.deepcopy(BS), copy.deepcopy(small9), codec=codec, sync_marker=marker)
    data10 = fo.getvalue()
    info = {"schema": BS, "records": "<7 small>", "codec": codec, "sync_interval": 16000, "axis": "scenario:reported-schema-edited-by-caller"}
    note_case(info)
    keys.add(("reported-schema-edited",))
    res.evals += 1
    try:
        r1 = fa.reader(io.BytesIO(data10))
        first = list(r1)
        ws = r1.writer_schema
        ws["fields"].append({"name": "added_by_caller", "type": "long", "default": 0})
        ws["fields"][0]["type"] = "string"
        r1.metadata["avro.codec"] = "no-such-codec"
        r2 = fa.reader(io.BytesIO(data10))
        second = list(r2)
        blocks = [x for b in fa.block_reader(io.BytesIO(data10)) for x in b]
    except Exception as e:
        first, second, blocks = small9, f"{type(e).__name__}: {e}", None
    if first != small9 or second != small9 or (blocks is not None and blocks != small9):
        res.add(Violation("c04.read", "records-differ:reported-schema-edited-by-caller", f"after the caller edited the writer_schema / metadata a first reader reported, a second reader of the same bytes returned {short(second, 200)}", info))
    # (11) one block far beyond the sizes above (64 MiB + 1), under deflate and null
    if codec in ("deflate", "null"):
        info = {"schema": BS, "records": "<one record of 64 MiB + 1>", "codec": codec, "sync_interval": 16000, "axis": "scenario:block-of-64MiB+1"}
        note_case(info)
        keys.add(("64MiB",))
        res.evals += 1
        blob = bytes(1024) * 65536 + b"!"
        fo = io.BytesIO()
        try:
            fa.writer(fo, copy.deepcopy(BS), [{"i": 1, "b": blob, "s": "x"}, {"i": 2, "b": b"", "s": "y"}], codec=codec, sync_marker=marker)
            got = list(fa.reader(io.BytesIO(fo.getvalue())))
            ok = len(got) == 2 and got[0]["b"] == blob and got[1] == {"i": 2, "b": b"", "s": "y"}
            why = f"{len(got)} records, first blob length {len(got[0]['b']) if got else None}"
        except Exception as e:
            ok, why = False, f"{type(e).__name__}: {e}"
        if not ok:
            res.add(Violation("c04.read", "records-differ:block-of-64MiB+1", f"a 64 MiB + 1 record under {codec}: {why}", info))
    # (12) zero-record blocks produced through the public Writer.dump(), followed by more records
    for pattern in ("dump-first", "write-dump-dump-write", "dump-between-flushes"):
        info = {"schema": BS, "records": "<7 small>", "codec": codec, "sync_interval": 16000, "axis": f"scenario:empty-block-{pattern}"}
        note_case(info)
        keys.add(("empty-block", pattern))
        res.evals += 1
        fo = io.BytesIO()
        try:
            w = Writer(fo, copy.deepcopy(BS), codec=codec, sync_marker=marker)
            if pattern == "dump-first":
                w.dump()
                for r in small9:
                    w.write(copy.deepcopy(r))
            elif pattern == "write-dump-dump-write":
                for r in small9[:3]:
                    w.write(copy.deepcopy(r))
                w.dump()
                w.dump()
                for r in small9[3:]:
                    w.write(copy.deepcopy(r))
            else:
                for r in small9[:2]:
                    w.write(copy.deepcopy(r))
                w.flush()
                w.dump()
                for r in small9[2:]:
                    w.write(copy.deepcopy(r))
                w.flush()
                w.dump()
            w.flush()
            got = list(fa.reader(io.BytesIO(fo.getvalue())))
            gotb = [x for b in fa.block_reader(io.BytesIO(fo.getvalue())) for x in b]
        except Exception as e:
            got = gotb = f"{type(e).__name__}: {e}"
        if got != small9 or gotb != small9:
            res.add(Violation("c04.read", "records-differ:empty-block", f"{pattern} under {codec}: reader {short(got, 160)}, block_reader {short(gotb, 160)}", info))
    # (13) blocks copied with write_block, untouched / partly iterated / fully iterated before the copy
    fo = io.BytesIO()
    fa.writer(fo, copy.deepcopy(BS), copy.deepcopy(small9), codec=codec, sync_marker=b"d" * 16, sync_interval=1)
    donor = fo.getvalue()
    for touched in ("untouched", "first-record-read", "fully-iterated"):
        for target_codec in (codec, "null"):
            info = {"schema": BS, "records": "<7 small>", "codec": codec, "sync_interval": 1, "axis": f"scenario:write_block-{touched}-into-{target_codec}"}
            note_case(info)
            keys.add(("write_block", touched, target_codec))
            res.evals += 1
            out = io.BytesIO()
            try:
                w = Writer(out, copy.deepcopy(BS), codec=target_codec, sync_marker=marker)
                for blk in fa.block_reader(io.BytesIO(donor)):
                    if touched == "first-record-read":
                        next(iter(blk))
                    elif touched == "fully-iterated":
                        list(blk)
                    w.write_block(blk)
                w.flush()
                got = list(fa.reader(io.BytesIO(out.getvalue())))
            except Exception as e:
                got = f"{type(e).__name__}: {e}"
            if got != small9:
                res.add(Violation("c04.read", "records-differ:write_block", f"blocks ({touched}) copied into a {target_codec} file read back as {short(got, 200)}", info))
    # (14) other legitimate byte streams: a read-only byte stream whose `mode` attribute is 'r' (a zip archive member); the
    # write end of an OS pipe (a real descriptor that supports neither seek nor fsync)
    fo = io.BytesIO()
    fa.writer(fo, copy.deepcopy(BS), copy.deepcopy(small9), codec=codec, sync_marker=marker)
    data14 = fo.getvalue()

    class ZipMember:
        mode = "r"
        name = "member.avro"

        def __init__(self, data):
            self._b = io.BytesIO(data)

        def read(self, n=-1):
            return self._b.read(n)

        def readable(self):
            return True

        def seekable(self):
            return False

    info = {"schema": BS, "records": "<7 small>", "codec": codec, "sync_interval": 16000, "axis": "scenario:stream-with-mode-r"}
    note_case(info)
    keys.add(("mode-r",))
    res.evals += 1
    try:
        got = list(fa.reader(ZipMember(data14)))
    except Exception as e:
        got = f"{type(e).__name__}: {e}"
    if got != small9:
        res.add(Violation("c04.read", "records-differ:stream-with-mode-r", f"a byte stream whose mode attribute is 'r': {short(got, 200)}", info))
    import threading

    info = {"schema": BS, "records": "<7 small>", "codec": codec, "sync_interval": 16000, "axis": "scenario:os-pipe-sink"}
    note_case(info)
    keys.add(("os-pipe",))
    res.evals += 1
    rfd, wfd = os.pipe()
    chunks = []
    t = threading.Thread(target=lambda: chunks.append(os.fdopen(rfd, "rb").read()), daemon=True)
    t.start()
    try:
        with os.fdopen(wfd, "wb") as sink:
            fa.writer(sink, copy.deepcopy(BS), copy.deepcopy(small9), codec=codec, sync_marker=marker)
        err = None
    except Exception as e:
        err = f"{type(e).__name__}: {e}"
    t.join(10)
    try:
        got = list(fa.reader(io.BytesIO(chunks[0]))) if chunks and err is None else err
    except Exception as e:
        got = f"{type(e).__name__}: {e}"
    if got != small9:
        res.add(Violation("c04.read", "records-differ:os-pipe-sink", f"written into the write end of an OS pipe: {short(got, 200)}", info))
    res.distinct = len(keys)
    res.sample({"scenarios": sorted(map(str, keys))[:4], "codec": codec})
    return res


def intervals(node, defs, recs, tier):
    sizes = []
    for r in recs:
        v, idx = conform.plan(node, defs, r)
        sizes.append(len(binary.encode(node, defs, v, conform.Indices(idx))))
    total = sum(sizes)
    if total <= 48:
        return list(range(1, total + 2)) + [16000]
    out = {1, 16000, 2 ** 31, total, total + 1, total - 1}
    acc = 0
    for s in sizes:
        acc += s
        out |= {acc, acc + 1}
    if tier == "thorough":
        out |= set(range(1, 65))
    return sorted(x for x in out if x >= 1)


def check_read(res, fa, label, info, data_stream, exp, exp_canon, codec, meta_supplied):
    res.evals += 1
    try:
        r = fa.reader(data_stream)
        got = list(r)
    except Exception as e:
        res.add(Violation(f"c04.{label}", f"read-raised:{type(e).__name__}", f"reader raised {type(e).__name__}: {e} | {short(info, 500)}", info))
        return
    if len(got) != len(exp) or not all(same(a, b) for a, b in zip(got, exp)):
        res.add(Violation(f"c04.{label}", "records-differ", f"read {short(got, 200)} expected {short(exp, 200)} | {short(info, 500)}", info))
    try:
        cf = fa.schema.to_parsing_canonical_form(r.writer_schema)
    except Exception as e:
        cf = f"raised {type(e).__name__}: {e}"
    if cf != exp_canon:
        res.add(Violation(f"c04.{label}", "writer-schema-canonical", f"writer_schema canonical form {cf!r} != {exp_canon!r} | {short(info, 300)}", info))
    if r.codec != codec:
        res.add(Violation(f"c04.{label}", "codec-reported", f"reader.codec {r.codec!r} != {codec!r} | {short(info, 300)}", info))
    md = dict(r.metadata)
    for k, v in meta_supplied.items():
        if md.get(k) != v:
            res.add(Violation(f"c04.{label}", "metadata-reported", f"metadata[{k!r}] = {md.get(k)!r}, supplied {v!r} | {short(info, 300)}", info))
    if md.get("avro.codec", "null") != codec:
        res.add(Violation(f"c04.{label}", "metadata-codec", f"header avro.codec {md.get('avro.codec')!r} != {codec!r} | {short(info, 300)}", info))


def one(res, fa, raw, schema_arg, node, defs, recs, exp, exp_canon, codec, interval, axis, marker, meta_obj=None, meta_supplied=None, level=None, stream="bytesio", tmpdir=None, keys=None):
    info = {"schema": raw, "records": recs, "codec": codec, "sync_interval": interval, "axis": axis, "level": level, "stream": stream,
            "metadata": meta_supplied}
    note_case(info)
    keys.add((repr(recs), codec, interval, axis))
    meta_supplied = meta_supplied or {}
    kwargs = dict(codec=codec, sync_interval=interval, sync_marker=marker)
    if meta_obj is not None:
        kwargs["metadata"] = meta_obj
    if level is not None:
        kwargs["codec_compression_level"] = level
    res.evals += 1
    try:
        if stream == "bytesio":
            fo = io.BytesIO()
            fa.writer(fo, schema_arg, copy.deepcopy(recs), **kwargs)
            data = fo.getvalue()
        elif stream == "file":
            path = os.path.join(tmpdir, "f.avro")
            with open(path, "wb") as fo:
                fa.writer(fo, schema_arg, copy.deepcopy(recs), **kwargs)
            with open(path, "rb") as fo:
                data = fo.read()
        elif stream == "writeonly":
            fo = WriteOnly()
            fa.writer(fo, schema_arg, copy.deepcopy(recs), **kwargs)
            data = bytes(fo.buf)
            if fo.touched:
                res.add(Violation("c04.stream", "writer-touched-other-methods", f"writer used {sorted(set(fo.touched))} on a write-only non-seekable output | {short(info, 300)}", info))
        else:
            raise AssertionError(stream)
    except Exception as e:
        res.add(Violation("c04.write", f"write-raised:{type(e).__name__}", f"writer raised {type(e).__name__}: {e} | {short(info, 500)}", info))
        return None
    if stream == "readonly-in":
        pass
    check_read(res, fa, "read", info, io.BytesIO(data), exp, exp_canon, codec, meta_supplied)
    return data


def run_unit(unit, tier):
    import fastavro as fa
    import fastavro.schema  # noqa

    si, codec = unit
    res = UnitResult()
    if si == "scenarios":
        return run_scenarios(fa, res, codec, tier)
    name, raw = cont.top_schemas()[si]
    lists, node, defs = cont.record_lists(raw)
    exp_canon = canon.canonical((node, defs))
    parsed = fa.parse_schema(copy.deepcopy(raw))
    marker = cont.sync_marker()
    keys = set()
    shared_meta = {"shared": "dict"}  # one dict object reused across calls (and, by other units, across codecs)
    with tempfile.TemporaryDirectory(prefix="verif-c04-") as tmpdir:
        for lname, recs in lists:
            exp = cont.expected(node, defs, recs)
            files = {}
            for iv in intervals(node, defs, recs, tier):
                d = one(res, fa, raw, copy.deepcopy(raw), node, defs, recs, exp, exp_canon, codec, iv, "interval", marker, keys=keys)
                if d is not None:
                    files[iv] = d
            res.sets["file_sizes"] |= {len(v) for v in files.values()}
            for iv in (1, 16000):
                for lvl in ((1, 9) if codec == "null" else (0, 1, 2, 3, 4, 5, 6, 7, 8, 9) if codec in ("deflate", "xz") else (1, 2, 5, 9)):
                    one(res, fa, raw, copy.deepcopy(raw), node, defs, recs, exp, exp_canon, codec, iv, f"level{lvl}", marker, level=lvl, keys=keys)
                for mname, md in (("ascii", {"k": "v"}), ("unicode", {"ключ€": "значение𝄞", "empty": ""})):
                    one(res, fa, raw, copy.deepcopy(raw), node, defs, recs, exp, exp_canon, codec, iv, "meta-" + mname, marker,
                        meta_obj=dict(md), meta_supplied=dict(md), keys=keys)
                # a metadata dict object reused across calls with different codecs
                for c2 in (codec, "null" if codec != "null" else "deflate", codec):
                    one(res, fa, raw, copy.deepcopy(raw), node, defs, recs, exp, exp_canon, c2, iv, "meta-reused", marker,
                        meta_obj=shared_meta, meta_supplied={"shared": "dict"}, keys=keys)
                one(res, fa, raw, parsed, node, defs, recs, exp, exp_canon, codec, iv, "parsed", marker, keys=keys)
                one(res, fa, raw, copy.deepcopy(raw), node, defs, recs, exp, exp_canon, codec, iv, "random-marker", b"", keys=keys)
                one(res, fa, raw, copy.deepcopy(raw), node, defs, recs, exp, exp_canon, codec, iv, "file", marker, stream="file", tmpdir=tmpdir, keys=keys)
                d = one(res, fa, raw, copy.deepcopy(raw), node, defs, recs, exp, exp_canon, codec, iv, "writeonly", marker, stream="writeonly", keys=keys)
                if d is not None:
                    ro = ReadOnly(d)
                    info = {"schema": raw, "records": recs, "codec": codec, "sync_interval": iv, "axis": "readonly"}
                    check_read(res, fa, "readonly", info, ro, exp, exp_canon, codec, {})
                    if ro.touched:
                        res.add(Violation("c04.stream", "reader-touched-other-methods", f"reader used {sorted(set(ro.touched))} on a read-only sequential input | {short(info, 300)}", info))
    res.distinct = len(keys)
    res.sample({"schema": name, "codec": codec, "lists": [l for l, _ in lists], "configs": len(keys)})
    return res


def finalize(total, sets, tier):
    import fastavro.write as w

    _, un = cont.available_codecs(w)
    total.stats["codecs_unavailable:" + ",".join(un)] = 1


def replay(case):
    import fastavro as fa

    res = UnitResult()
    if str(case.get("axis", "")).startswith("scenario:"):
        return run_scenarios(fa, res, case["codec"], "quick").violations
    raw = case["schema"]
    node, defs = names.resolve(raw)
    recs = case["records"]
    exp = cont.expected(node, defs, recs)
    exp_canon = canon.canonical((node, defs))
    sa = fa.parse_schema(copy.deepcopy(raw)) if case.get("axis") == "parsed" else copy.deepcopy(raw)
    md = case.get("metadata")
    with tempfile.TemporaryDirectory(prefix="verif-c04-") as tmpdir:
        stream = case.get("stream", "bytesio")
        d = one(res, fa, raw, sa, node, defs, recs, exp, exp_canon, case["codec"], case["sync_interval"], case.get("axis"), cont.sync_marker(),
                meta_obj=dict(md) if md else None, meta_supplied=dict(md) if md else None, level=case.get("level"),
                stream=stream if stream in ("bytesio", "file", "writeonly") else "bytesio", tmpdir=tmpdir, keys=set())
        if case.get("axis") == "readonly" and d is not None:
            ro = ReadOnly(d)
            check_read(res, fa, "readonly", case, ro, exp, exp_canon, case["codec"], {})
    return res.violations
