"""C15 — the JSON codec emits the specification's JSON encoding, round-trips
and agrees with the binary codec."""
import copy
import io
import itertools
import json
import math

from ..harness import UnitResult, Violation, short, note_case
from .. import family, alphabet
from ..values import same, key, num_equal
from ..ref import names, conform, binary, jsonenc

LEVEL = "exploration"
RULE = (
    "(values) every schema of the family x D_1 data (finite floats, float32-exact under 'float') as record lists of length "
    "0,1,2,3 x write_union_type; (nesting contexts) EVERY context word of length <=3 (thorough 4) over {record field, array "
    "item, map value, union branch} applied to every atom, with 0/1/2 items at each collection level and null/value at each "
    "union level, plus the second use of a named type, recursion depth 1..4 through union/array/map, a map key equal to a "
    "field name, the empty map key, records without fields; record lists of n-1, n, n+1 records for n in {64, 256, 1000, 1024, 2000, 4096} "
    "(thorough: up to 65536). Oracle: each output line json.loads to the reference JSON "
    "encoding (structure level, numbers by value); json_reader on the text returns the records; they equal the binary "
    "decode of the same data (numbers by value); a JSON text with the defaulted keys removed yields the schema defaults. "
    "distinct_nontrivial = distinct (schema, record list, write_union_type) cases."
    ' SPECIAL includes unions with inline "error" branches.'
)
ASSUMPTIONS = [
    "non-finite floats are excluded: the specification's JSON encoding has no representation for them",
    "values under 'float' are restricted to float32-exact ones and integers under float/double to exactly representable ones, so that JSON text and binary agree by value",
    "reference JSON encoder mc/ref/jsonenc.py; pure-Python fastavro only (Cython absent)",
]
UNIT_TIMEOUT_S = 1200
ATOMS = ["null", "boolean", "int", "long", "float", "double", "bytes", "string", family.E(), family.F()]


def has_nonfinite(d):
    if isinstance(d, float):
        return not math.isfinite(d)
    if isinstance(d, dict):
        return any(has_nonfinite(v) for v in d.values())
    if isinstance(d, (list, tuple)):
        return any(has_nonfinite(v) for v in d)
    return False


def finite_ok(node, defs, d):
    n = names.deref(node, defs)
    k = n["k"]
    if k in ("float", "double"):
        if isinstance(d, float) and not math.isfinite(d):
            return False
        if isinstance(d, (int, float)) and not isinstance(d, bool):
            try:
                if float(d) != d:
                    return False  # an int the double cannot hold exactly: JSON text and binary would differ by value
                if k == "float":
                    return conform.f32(float(d)) == float(d)
            except OverflowError:
                return False
        return True
    if k == "array" and isinstance(d, (list, tuple)):
        return all(finite_ok(n["items"], defs, x) for x in d)
    if k == "map" and isinstance(d, dict):
        return all(finite_ok(n["values"], defs, x) for x in d.values())
    if k == "record" and isinstance(d, dict):
        return all(finite_ok(f["type"], defs, d[f["name"]]) for f in n["fields"] if f["name"] in d)
    if k == "union":
        v = d[1] if isinstance(d, tuple) and len(d) == 2 else d
        return all(finite_ok(b, defs, v) for b in n["branches"] if conform.conforms(b, defs, v))
    return True


def wrap(x, word, counter):
    for c in reversed(word):
        counter[0] += 1
        if c == "R":
            x = {"type": "record", "name": "Rec%d" % counter[0], "fields": [{"name": "f", "type": x}, {"name": "g", "type": "int"}]}
        elif c == "A":
            x = {"type": "array", "items": x}
        elif c == "M":
            x = {"type": "map", "values": x}
        elif c == "U":
            if isinstance(x, list) or x == "null":
                return None
            x = ["null", x]
    return x


def context_schemas(tier):
    out = []
    maxlen = 3 if tier == "quick" else 4
    for ln in range(1, maxlen + 1):
        for word in itertools.product("RAMU", repeat=ln):
            for a in ATOMS:
                s = wrap(copy.deepcopy(a), word, [0])
                if s is not None:
                    out.append(("".join(word), family.dedupe(s)))
    return out


def context_data(node, defs, depth=0):
    """Data for a context schema: 0/1/2 items at each collection, null/value at each union."""
    n = names.deref(node, defs)
    k = n["k"]
    if k == "array":
        inner = context_data(n["items"], defs, depth + 1)
        out = [[]]
        for v in inner:
            out.append([v])
        out += [[a, b] for a, b in itertools.islice(itertools.product(inner, repeat=2), 6)]
        return out
    if k == "map":
        inner = context_data(n["values"], defs, depth + 1)
        out = [{}]
        for v in inner:
            out.append({"f": v})  # key equal to a field name used by the contexts
        out += [{"k1": a, "g": b} for a, b in itertools.islice(itertools.product(inner, repeat=2), 6)]
        return out
    if k == "union":
        out = []
        for b in n["branches"]:
            out += context_data(b, defs, depth + 1)
        return out
    if k == "record":
        fs = n["fields"]
        if not fs:
            return [{}]
        lists = [context_data(f["type"], defs, depth + 1) for f in fs]
        out = []
        for v in lists[0]:
            out.append(dict({fs[0]["name"]: v}, **{f["name"]: l[0] for f, l in zip(fs[1:], lists[1:])}))
        return out
    al = alphabet.leaf(n)
    if k == "float":
        return [0.0, 1.5]
    if k == "double":
        return [0.0, 0.1]
    return al[:2] if len(al) > 1 else al


def _deep_records(n):
    """n records nested inside one another, each with one int and the next level."""
    s = {"type": "record", "name": "D%d" % n, "fields": [{"name": "v", "type": "int"}]}
    for i in range(n - 1, 0, -1):
        s = {"type": "record", "name": "D%d" % i, "fields": [{"name": "v", "type": "int"}, {"name": "next", "type": s}]}
    return s


def _deep_rar(n):
    """record -> array -> record -> array ... n levels."""
    s = {"type": "record", "name": "L%d" % n, "fields": [{"name": "leaf", "type": "string"}]}
    for i in range(n - 1, 0, -1):
        s = {"type": "record", "name": "L%d" % i, "fields": [{"name": "kids", "type": {"type": "array", "items": s}}]}
    return s


def _deep_value(schema):
    t = schema["type"] if isinstance(schema, dict) else schema
    if t == "record":
        return {f["name"]: _deep_value(f["type"]) for f in schema["fields"]}
    if t == "array":
        return [_deep_value(schema["items"])]
    return {"int": 7, "string": "leaf"}[t]


SPECIAL = [
    ("second-use", {"type": "record", "name": "R", "fields": [{"name": "a", "type": family.R1()}, {"name": "b", "type": "R1"}, {"name": "c", "type": {"type": "array", "items": "R1"}},
                                                              {"name": "d", "type": ["null", "R1"]}, {"name": "e", "type": {"type": "map", "values": "R1"}}]}),
    ("recursive-union", {"type": "record", "name": "Node", "fields": [{"name": "value", "type": "int"}, {"name": "next", "type": ["null", "Node"]}]}),
    ("recursive-array", {"type": "record", "name": "T", "fields": [{"name": "v", "type": "int"}, {"name": "kids", "type": {"type": "array", "items": "T"}}]}),
    ("recursive-map", {"type": "record", "name": "M", "fields": [{"name": "v", "type": "int"}, {"name": "m", "type": {"type": "map", "values": "M"}}]}),
    ("no-fields", {"type": "record", "name": "Empty", "fields": []}),
    ("no-fields-nested", {"type": "record", "name": "Holder", "fields": [{"name": "e", "type": {"type": "record", "name": "Empty", "fields": []}}, {"name": "x", "type": "int"},
                                                                        {"name": "es", "type": {"type": "array", "items": "Empty"}}]}),
    ("map-keys", {"type": "record", "name": "K", "fields": [{"name": "name", "type": "string"}, {"name": "m", "type": {"type": "map", "values": "int"}}, {"name": "after", "type": "int"}]}),
    ("null-default", {"type": "record", "name": "ND", "fields": [{"name": "n", "type": "null", "default": None}, {"name": "u", "type": ["null", "int"], "default": None}, {"name": "x", "type": "int", "default": 3},
                                                                 {"name": "a", "type": {"type": "array", "items": "int"}, "default": [1, 2]}, {"name": "m", "type": {"type": "map", "values": "string"}, "default": {"k": "v"}},
                                                                 {"name": "r", "type": {"type": "record", "name": "In", "fields": [{"name": "q", "type": "int", "default": 1}]}, "default": {"q": 9}},
                                                                 {"name": "e", "type": family.E(), "default": "B"}, {"name": "s", "type": "string", "default": "dflt"}, {"name": "b", "type": "bytes", "default": "ÿ"}]}),
    ("same-type-different-defaults", {"type": "record", "name": "SD", "fields": [
        {"name": "c1", "type": family.E(), "default": "A"}, {"name": "c2", "type": "E", "default": "B"}, {"name": "c3", "type": "E", "default": "C"}, {"name": "c4", "type": "E"},
        {"name": "p1", "type": {"type": "record", "name": "Pt", "fields": [{"name": "x", "type": "int"}]}, "default": {"x": -1}}, {"name": "p2", "type": "Pt", "default": {"x": 9}},
        {"name": "f1", "type": family.F(), "default": "ab"}, {"name": "f2", "type": "F", "default": "cd"}, {"name": "f3", "type": "F"}]}),
    ("nested-defaults", {"type": "record", "name": "NDf", "fields": [
        {"name": "k", "type": "int"},
        {"name": "aa", "type": {"type": "array", "items": {"type": "array", "items": "int"}}, "default": [[1, 2], [3]]},
        {"name": "ma", "type": {"type": "map", "values": {"type": "array", "items": "string"}}, "default": {"k": ["a", "b"]}},
        {"name": "ra", "type": {"type": "record", "name": "Ra", "fields": [{"name": "xs", "type": {"type": "array", "items": "int"}}, {"name": "m", "type": {"type": "map", "values": "int"}}]},
         "default": {"xs": [7, 8], "m": {"q": 1}}},
        {"name": "am", "type": {"type": "array", "items": {"type": "map", "values": "int"}}, "default": [{"a": 1}, {"b": 2}]}]}),
    ("null-namespace-in-union", {"type": "record", "name": "Outer", "namespace": "com.acme", "fields": [
        {"name": "u", "type": ["null", {"type": "enum", "name": "Colour", "namespace": "", "symbols": ["RED", "GREEN"]},
                               {"type": "record", "name": "Pt", "namespace": "", "fields": [{"name": "x", "type": "int"}]},
                               {"type": "fixed", "name": "Fx", "namespace": "", "size": 1}, {"type": "enum", "name": "Colour", "symbols": ["BLUE"]}]},
        {"name": "v", "type": ["null", "Colour", "string"]}]}),
    ("error-branches", {"type": "record", "name": "Reply", "namespace": "rpc", "fields": [
        {"name": "u", "type": ["null", "string", {"type": "error", "name": "Oops", "fields": [{"name": "msg", "type": "string"}]},
                               {"type": "error", "name": "other.Denied", "fields": [{"name": "code", "type": "int"}]},
                               {"type": "record", "name": "Fine", "fields": [{"name": "v", "type": "long"}]}]},
        {"name": "again", "type": ["null", "Oops", "other.Denied"]}]}),
    ("enum-type-default-vs-field-default", {"type": "record", "name": "Paint", "fields": [
        {"name": "id", "type": "int"},
        {"name": "c1", "type": {"type": "enum", "name": "Colour", "symbols": ["RED", "GREEN", "BLUE", "UNKNOWN"], "default": "UNKNOWN"}, "default": "BLUE"},
        {"name": "c2", "type": "Colour", "default": "GREEN"}, {"name": "c3", "type": ["Colour", "null"], "default": "RED"},
        {"name": "cs", "type": {"type": "array", "items": "Colour"}, "default": ["BLUE", "RED"]}]}),
    ("suffix-full-names-in-union", {"type": "record", "name": "Parcel", "namespace": "shop", "fields": [
        {"name": "u", "type": ["null", {"type": "record", "name": "Address", "namespace": "shop.geo", "fields": [{"name": "street", "type": "string", "default": "none"}]},
                               {"type": "record", "name": "Address", "namespace": "geo", "fields": [{"name": "city", "type": "string", "default": "nowhere"}]},
                               {"type": "enum", "name": "x.y.Kind", "symbols": ["A"]}, {"type": "enum", "name": "y.Kind", "symbols": ["B", "A"]}]},
        {"name": "v", "type": ["geo.Address", "shop.geo.Address", "null"]}]}),
    ("object-form-primitives-with-defaults", {"type": "record", "name": "OF", "fields": [
        {"name": "id", "type": "int"}, {"name": "n", "type": {"type": "int"}, "default": 5}, {"name": "s", "type": {"type": "string", "note": "x"}, "default": "dflt"},
        {"name": "b", "type": {"type": "boolean"}, "default": False}, {"name": "d", "type": {"type": "double"}, "default": 0.5}, {"name": "by", "type": {"type": "bytes"}, "default": "\u00ff"}]}),
    ("alias-equal-to-sibling-name", {"type": "record", "name": "Parcel", "fields": [
        {"name": "id", "type": "string"}, {"name": "size", "type": "int", "default": 1}, {"name": "weight", "type": "int", "default": 5, "aliases": ["size", "mass"]},
        {"name": "mass", "type": "int", "default": 9}]}),
    ("null-branch-in-object-form", {"type": "record", "name": "ON", "fields": [
        {"name": "u", "type": [{"type": "null"}, "string"]}, {"name": "v", "type": ["int", {"type": "null", "note": "x"}]},
        {"name": "w", "type": {"type": "array", "items": [{"type": "null"}, {"type": "record", "name": "W", "fields": [{"name": "x", "type": "int"}]}]}}]}),
    ("deep-arrays", {"type": "array", "items": {"type": "array", "items": {"type": "array", "items": {"type": "array", "items": {"type": "array", "items": {"type": "array", "items":
                    {"type": "array", "items": {"type": "array", "items": {"type": "array", "items": {"type": "array", "items": {"type": "array", "items": {"type": "array", "items":
                    {"type": "array", "items": {"type": "array", "items": {"type": "array", "items": {"type": "array", "items": {"type": "array", "items": {"type": "array", "items": "int"}}}}}}}}}}}}}}}}}}),
    ("deep-records", _deep_records(40)),
    ("deep-record-array-record", _deep_rar(14)),
    ("deep-map-values", {"type": "map", "values": {"type": "record", "name": "Person", "fields": [
        {"name": "name", "type": "string"},
        {"name": "contact", "type": {"type": "record", "name": "Contact", "fields": [{"name": "email", "type": "string"}, {"name": "phone", "type": ["null", "string", {"type": "array", "items": "int"}]}]}}]}}),
    ("deep-array-items", {"type": "array", "items": {"type": "record", "name": "Lvl1", "fields": [{"name": "l2", "type": {"type": "record", "name": "Lvl2", "fields": [
        {"name": "l3", "type": {"type": "record", "name": "Lvl3", "fields": [{"name": "u", "type": ["null", {"type": "map", "values": ["null", "int"]}]}]}}]}}]}}),
    ("empty-key-containers", {"type": "record", "name": "EK", "fields": [
        {"name": "mr", "type": {"type": "map", "values": {"type": "record", "name": "XY", "fields": [{"name": "x", "type": "int"}, {"name": "y", "type": "int", "default": 0}]}}},
        {"name": "ma", "type": {"type": "map", "values": {"type": "array", "items": "int"}}}, {"name": "mm", "type": {"type": "map", "values": {"type": "map", "values": "string"}}},
        {"name": "mu", "type": {"type": "map", "values": ["null", "XY"]}}]}),
    ("namespaced-union", {"type": "record", "name": "N", "namespace": "ns.x", "fields": [{"name": "u", "type": ["null", {"type": "enum", "name": "En", "symbols": ["A"]}, {"type": "fixed", "name": "other.Fx", "size": 1},
                                                                                                        {"type": "record", "name": "Rr", "fields": [{"name": "z", "type": "int"}]}, {"type": "array", "items": "int"}, {"type": "map", "values": "int"}, "string", "bytes", "double"]}]}),
]


def special_data(label, node, defs):
    if label == "recursive-union":
        out = []
        d = None
        for depth in range(1, 5):
            d = {"value": depth, "next": d}
            out.append(d)
        return out
    if label == "recursive-array":
        out = [{"v": 0, "kids": []}]
        d = {"v": 0, "kids": []}
        for depth in range(1, 5):
            d = {"v": depth, "kids": [d, {"v": -depth, "kids": []}]}
            out.append(d)
        return out
    if label == "recursive-map":
        out = [{"v": 0, "m": {}}]
        d = {"v": 0, "m": {}}
        for depth in range(1, 5):
            d = {"v": depth, "m": {"a": d, "v": {"v": -1, "m": {}}}}
            out.append(d)
        return out
    if label == "map-keys":
        return [{"name": "n", "m": m, "after": 7} for m in ({}, {"name": 1}, {"after": 2, "m": 3}, {"": 4}, {"": 5, "x": 6}, {"é\"\\\n": 8}, {"k": 9, "name": 10, "after": 11})]
    if label == "error-branches":
        return [{"u": ("rpc.Oops", {"msg": "m"}), "again": None}, {"u": ("other.Denied", {"code": 7}), "again": ("rpc.Oops", {"msg": "x"})},
                {"u": ("rpc.Fine", {"v": 1}), "again": ("other.Denied", {"code": -1})}, {"u": "s", "again": None}, {"u": None, "again": None}]
    if label == "enum-type-default-vs-field-default":
        return [{"id": 1, "c1": "RED", "c2": "RED", "c3": None, "cs": []}, {"id": 2, "c1": "UNKNOWN", "c2": "BLUE", "c3": "GREEN", "cs": ["UNKNOWN"]}]
    if label == "suffix-full-names-in-union":
        return [{"u": ("geo.Address", {"city": "c"}), "v": ("shop.geo.Address", {"street": "s"})}, {"u": ("shop.geo.Address", {"street": "s"}), "v": ("geo.Address", {"city": "c"})},
                {"u": ("y.Kind", "A"), "v": None}, {"u": ("x.y.Kind", "A"), "v": ("geo.Address", {"city": ""})}, {"u": None, "v": ("geo.Address", {})}]
    if label == "object-form-primitives-with-defaults":
        return [{"id": 1, "n": 2, "s": "x", "b": True, "d": 1.5, "by": b"z"}]
    if label == "alias-equal-to-sibling-name":
        return [{"id": "p1", "size": 7, "weight": 3, "mass": 4}]
    if label == "null-branch-in-object-form":
        return [{"u": None, "v": None, "w": [None, {"x": 1}]}, {"u": "s", "v": 5, "w": []}]
    if label in ("deep-arrays", "deep-records", "deep-record-array-record"):
        raw_ = dict(SPECIAL)[label]
        return [_deep_value(raw_)]
    if label == "deep-map-values":
        return [{"a": {"name": "n", "contact": {"email": "e", "phone": "555"}}}, {"a": {"name": "n", "contact": {"email": "e", "phone": None}}, "b": {"name": "m", "contact": {"email": "f", "phone": [1, 2]}}},
                {"x": {"name": "", "contact": {"email": "", "phone": "1"}}, "y": {"name": "q", "contact": {"email": "r", "phone": "2"}}, "z": {"name": "s", "contact": {"email": "t", "phone": None}}}, {}]
    if label == "deep-array-items":
        return [[{"l2": {"l3": {"u": {"k": 1, "j": None}}}}, {"l2": {"l3": {"u": None}}}], [{"l2": {"l3": {"u": {}}}}], []]
    if label == "empty-key-containers":
        return [{"mr": {"": {"x": 3, "y": 4}}, "ma": {"": [1, 2]}, "mm": {"": {"": "v", "k": "w"}}, "mu": {"": {"x": 1, "y": 2}, "n": None}},
                {"mr": {"": {"x": 3, "y": 4}, "b": {"x": 5, "y": 6}}, "ma": {"": []}, "mm": {"": {}}, "mu": {"": None}}]
    if label == "nested-defaults":
        return [{"k": 1, "aa": [[9]], "ma": {"z": []}, "ra": {"xs": [], "m": {}}, "am": []}]
    if label == "null-namespace-in-union":
        return [{"u": "RED", "v": "BLUE"}, {"u": ("Colour", "GREEN"), "v": None}, {"u": ("com.acme.Colour", "BLUE"), "v": ("com.acme.Colour", "BLUE")}, {"u": {"x": 1}, "v": "s"}, {"u": b"z", "v": None}]
    if label == "same-type-different-defaults":
        return [{"c1": "C", "c2": "C", "c3": "A", "c4": "B", "p1": {"x": 1}, "p2": {"x": 2}, "f1": b"11", "f2": b"22", "f3": b"33"}]
    if label == "null-default":
        full = {"n": None, "u": 5, "x": 1, "a": [7], "m": {"z": "y"}, "r": {"q": 2}, "e": "C", "s": "str", "b": b"\x00\xfe"}
        out = [full]
        for k in full:
            out.append({kk: vv for kk, vv in full.items() if kk != k})
        out.append({})
        return out
    return [d for d, c in alphabet.data_for(node, defs, 1, hints=True, big=False)]


def units(tier):
    n = len(family.schemas("quick"))
    ctx = context_schemas(tier)
    many = [("many", m) for m in ((64, 256, 1000, 1024, 2000, 4096) if tier == "quick" else (64, 100, 128, 256, 512, 1000, 1024, 2000, 2048, 4096, 8192, 10000, 16384, 65536))]
    return many + [("family", i) for i in range(n)] + [("context", i) for i in range(0, len(ctx), 20)] + [("special", i) for i in range(len(SPECIAL))]


def check_list(fa, res, raw, parsed, node, defs, recs, union_type, seen, label="", skip_text=False):
    kk = (key(recs), union_type)
    if kk in seen:
        return
    seen.add(kk)
    info = {"schema": raw, "records": recs, "write_union_type": union_type, "label": label}
    note_case(info)
    res.evals += 1
    plans = []
    for d in recs:
        v, idx = conform.plan(node, defs, d)
        # where C09's rule is silent the writer's own (binary) choice decides the branch
        try:
            b = io.BytesIO()
            fa.schemaless_writer(b, parsed, copy.deepcopy(d))
            v2, pos, idx2 = binary.decode(node, defs, b.getvalue())
            if idx2 != idx and same(conform.normalise(node, defs, d, conform.Indices(idx2)), v2):
                v, idx = v2, idx2
        except Exception:
            pass
        plans.append((v, idx))
    fo = io.StringIO()
    try:
        fa.json_writer(fo, parsed, copy.deepcopy(recs), write_union_type=union_type)
    except Exception as e:
        traits = schema_traits(node, defs)
        tag = _tag(label, recs, e)
        if isinstance(e, (RecursionError, IndexError)) and "recursive" in traits:
            tag = "recursive-schema"
        elif "Internal Parser Exception" in str(e) and "record-without-fields" in traits:
            try:
                at_end = any(ends_with_empty_record(node, defs, v, conform.Indices(idx)) for v, idx in plans)
            except Exception:
                at_end = False
            # the recorded finding: a datum whose last written value is a field-less record; anything else is new
            tag = "record-without-fields" if at_end else "record-without-fields-elsewhere"
        res.add(Violation("c15.write", f"json-write-raised:{type(e).__name__}:{tag}", f"json_writer raised {type(e).__name__}: {e} | {short(info, 500)}", info))
        return
    text = fo.getvalue()
    lines = text.split("\n") if text != "" else []
    want = [jsonenc.encode(node, defs, v, conform.Indices(idx), union_type) for v, idx in plans]
    try:
        got = [json.loads(l) for l in lines]
    except Exception as e:
        res.add(Violation("c15.text", "output-not-json-lines", f"output is not one JSON document per line: {e}: {text[:200]!r} | {short(info, 300)}", info))
        return
    if not skip_text and (len(got) != len(want) or not all(num_equal(a, b) for a, b in zip(got, want))):
        res.add(Violation("c15.text", f"json-encoding-differs:{_tag(label, recs, None)}", f"json_writer emitted {short(got, 300)}, the specification's JSON encoding is {short(want, 300)} | {short(info, 300)}", info))
        return
    if not union_type:
        return
    exp = [v for v, idx in plans]
    try:
        back = list(fa.json_reader(io.StringIO(text), parsed))
    except Exception as e:
        res.add(Violation("c15.read", f"json-read-raised:{type(e).__name__}:{_tag(label, recs, e)}", f"json_reader raised {type(e).__name__}: {e} on {text[:200]!r} | {short(info, 400)}", info))
        return
    if len(back) != len(exp) or not all(num_equal(a, b) for a, b in zip(back, exp)):
        res.add(Violation("c15.read", f"json-roundtrip-differs:{_tag(label, recs, None)}", f"json_reader returned {short(back, 300)}, written {short(exp, 300)} | text {text[:200]!r} | {short(info, 300)}", info))
        return
    # agreement with the binary codec
    try:
        bins = []
        for d in recs:
            b = io.BytesIO()
            fa.schemaless_writer(b, parsed, copy.deepcopy(d))
            b.seek(0)
            bins.append(fa.schemaless_reader(b, parsed))
        if not all(num_equal(a, b) for a, b in zip(back, bins)):
            res.add(Violation("c15.binary", "json-and-binary-disagree", f"decoded from JSON {short(back, 300)}, from binary {short(bins, 300)} | {short(info, 300)}", info))
    except Exception as e:
        res.add(Violation("c15.binary", f"binary-raised:{type(e).__name__}", f"{e} | {short(info, 300)}", info))


def _tag(label, recs, e):
    """Narrow classification used in signatures (for known findings)."""
    def has_empty_key(x):
        if isinstance(x, dict):
            return "" in x or any(has_empty_key(v) for v in x.values())
        if isinstance(x, (list, tuple)):
            return any(has_empty_key(v) for v in x)
        return False

    if any(has_empty_key(r) for r in recs):
        return "datum-has-empty-map-key"
    if not recs:
        return "empty-record-list"
    return label.split(":")[0] if label else "general"


def ends_with_empty_record(node, defs, v, indices):
    """Is the LAST thing written for this value a record without fields?  (Writing such a record calls no encoder method; the
    recorded finding is exactly this shape at the end of a top-level datum.)  Walks the whole value in encoding order so
    that the union choices are consumed in step."""
    n = names.deref(node, defs)
    k = n["k"]
    if k == "record":
        if not n["fields"]:
            return True
        last = False
        for f in n["fields"]:
            last = ends_with_empty_record(f["type"], defs, v[f["name"]], indices)
        return last
    if k == "union":
        return ends_with_empty_record(n["branches"][indices.next()], defs, v, indices)
    if k == "array":
        for x in v:
            ends_with_empty_record(n["items"], defs, x, indices)
        return False  # the array's end is written after its last item
    if k == "map":
        for x in v.values():
            ends_with_empty_record(n["values"], defs, x, indices)
        return False
    return False


def schema_traits(node, defs):
    """Schema features behind the recorded findings of the JSON codec."""
    out = set()
    for name, d in defs.items():
        if d["k"] == "record":
            if not d["fields"]:
                out.add("record-without-fields")
            if _reaches(d, name, defs, set(), via_union_only=False):
                out.add("recursive")
    n = names.deref(node, defs)
    return out


def _reaches(n, target, defs, seen, via_union_only):
    n = names.deref(n, defs) if "k" in n else n
    k = n["k"]
    if k == "record":
        if n["name"] in seen:
            return False
        seen = seen | {n["name"]}
        for f in n["fields"]:
            t = f["type"]
            if t["k"] == "ref" and t["name"] == target:
                return True
            if _reaches(t, target, defs, seen, via_union_only):
                return True
        return False
    if k == "array":
        t = n["items"]
        return (t["k"] == "ref" and t["name"] == target) or _reaches(t, target, defs, seen, via_union_only)
    if k == "map":
        t = n["values"]
        return (t["k"] == "ref" and t["name"] == target) or _reaches(t, target, defs, seen, via_union_only)
    if k == "union":
        return any((b["k"] == "ref" and b["name"] == target) or _reaches(b, target, defs, seen, via_union_only) for b in n["branches"])
    return False


def check_defaults(fa, res, raw, parsed, node, defs, seen):
    """A JSON text with defaulted keys removed yields the schema defaults."""
    n = names.deref(node, defs)
    if n["k"] != "record":
        return
    base = alphabet.base(node, defs)
    v, idx = conform.plan(node, defs, base)
    full = jsonenc.encode(node, defs, v, conform.Indices(idx), True)
    dflt = [f for f in n["fields"] if "default" in f]
    for r in range(1, len(dflt) + 1):
        for sub in itertools.combinations(dflt, r):
            if r > 2 and r != len(dflt):
                continue
            doc = {k: x for k, x in full.items() if k not in {f["name"] for f in sub}}
            text = json.dumps(doc)
            exp = dict(v)
            for f in sub:
                exp[f["name"]] = conform.normalise(f["type"], defs, names.default_value(f["type"], defs, f["default"]))
            res.evals += 1
            info = {"schema": raw, "records": [], "write_union_type": True, "label": "absent-keys", "text": text}
            seen.add(("absent", text))
            try:
                back = list(fa.json_reader(io.StringIO(text + "\n" + text), parsed))
            except Exception as e:
                res.add(Violation("c15.defaults", f"absent-key-raised:{type(e).__name__}:{'+'.join(sorted(names.deref(f['type'], defs)['k'] for f in sub))}",
                                  f"json_reader raised {type(e).__name__}: {e} on {text!r} (keys {[f['name'] for f in sub]} absent) | {short(raw, 300)}", info))
                continue
            if len(back) != 2 or not all(num_equal(b, exp) for b in back):
                res.add(Violation("c15.defaults", "absent-key-wrong-default", f"json_reader on {text!r} (twice) returned {short(back, 300)}, defaults give {short(exp, 200)} | {short(raw, 300)}", info))


def run_schema(fa, res, raw, data, seen, label):
    node, defs = names.resolve(raw)
    try:
        parsed = fa.parse_schema(copy.deepcopy(raw))
    except Exception as e:
        res.add(Violation("c15.parse", f"schema-rejected:{type(e).__name__}", f"{e} | {short(raw, 300)}", {"schema": raw, "records": [], "write_union_type": True, "label": label}))
        return
    # non-finite floats: the specification's JSON encoding says nothing about them, so the TEXT is not judged - but what
    # json_writer emits for them json_reader must read back, and agree with the binary codec
    nonfinite = [d for d in data if not finite_ok(node, defs, d) and has_nonfinite(d)][:12]
    for d in nonfinite:
        check_list(fa, res, raw, parsed, node, defs, [d], True, seen, label, skip_text=True)
    data = [d for d in data if finite_ok(node, defs, d)]
    for ut in (True, False):
        check_list(fa, res, raw, parsed, node, defs, [], ut, seen, label)
        for d in data:
            check_list(fa, res, raw, parsed, node, defs, [d], ut, seen, label)
        for i in range(0, max(0, len(data) - 1), 3):
            check_list(fa, res, raw, parsed, node, defs, data[i:i + 2], ut, seen, label)
            check_list(fa, res, raw, parsed, node, defs, data[i:i + 3], ut, seen, label)
    check_defaults(fa, res, raw, parsed, node, defs, seen)


def run_unit(unit, tier):
    import fastavro as fa

    res = UnitResult()
    seen = set()
    kind, i = unit
    if kind == "many":
        # long record lists: buffering boundaries inside the encoder/decoder
        for raw, mk in (("int", lambda j: j), (family.R1(), lambda j: {"x": j}), (["null", "string"], lambda j: None if j % 3 == 0 else "s%d" % j)):
            node, defs = names.resolve(raw)
            parsed = fa.parse_schema(copy.deepcopy(raw))
            for n in (i - 1, i, i + 1):
                check_list(fa, res, raw, parsed, node, defs, [mk(j) for j in range(n)], True, seen, "many")
        res.distinct = len(seen)
        res.sample({"many_records": [i - 1, i, i + 1]})
        return res
    if kind == "family":
        raw = family.schemas("quick")[i]
        node, defs = names.resolve(raw)
        data = [d for d, c in alphabet.data_for(node, defs, 1, hints=True, big=False)]
        run_schema(fa, res, raw, data, seen, "family")
        res.sample({"schema": raw, "cases": len(seen)})
    elif kind == "context":
        ctx = context_schemas(tier)[i:i + 20]
        for word, raw in ctx:
            node, defs = names.resolve(raw)
            s2 = set()
            run_schema(fa, res, raw, context_data(node, defs)[:40], s2, "context:" + word)
            seen |= {(word, json.dumps(raw, sort_keys=True), k) for k in s2}
            res.sets["context_words"].add(word)
        res.sample({"context_word": ctx[0][0], "schema": ctx[0][1]})
    else:
        label, raw = SPECIAL[i]
        node, defs = names.resolve(raw)
        run_schema(fa, res, raw, special_data(label, node, defs), seen, "special:" + label)
        res.sample({"special": label, "schema": raw})
    res.distinct = len(seen)
    return res


def replay(case):
    import fastavro as fa

    res = UnitResult()
    raw = case["schema"]
    node, defs = names.resolve(raw)
    parsed = fa.parse_schema(copy.deepcopy(raw))
    if case.get("label") == "absent-keys":
        check_defaults(fa, res, raw, parsed, node, defs, set())
        return res.violations
    check_list(fa, res, raw, parsed, node, defs, case["records"], case["write_union_type"], set(), case.get("label", ""))
    return res.violations


def standalone(case):
    return ("import io, sys; sys.path.insert(0, '/repo')\nimport fastavro\n"
            f"schema = {case['schema']!r}\nrecords = {case['records']!r}\n"
            f"fo = io.StringIO(); fastavro.json_writer(fo, schema, records, write_union_type={case['write_union_type']}); print(fo.getvalue())\n"
            "print(list(fastavro.json_reader(io.StringIO(fo.getvalue()), schema)))\n")
