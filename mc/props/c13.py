"""C13 — canonical form equals the specification's transformation and is
invariant under cosmetic edits."""
import copy
import io
import json

from ..harness import UnitResult, Violation, short, note_case
from .. import family, alphabet
from ..values import same, key
from ..ref import names, conform, binary, canon

LEVEL = "exploration"
RULE = (
    "for every schema of the family and the named-type/namespace family (plus namespace variants: every named schema "
    "re-spelled with namespace 'a.b' as attribute and as dotted name, and nested types given explicit/empty/dotted "
    "namespaces) EVERY single cosmetic rewrite at EVERY position: doc, aliases, default, order, custom attribute, "
    "logicalType + parameters, attribute order reversed, 'int' <-> {'type':'int'}, error<->record; "
    "thorough: every PAIR of rewrites. Oracle: output text == the reference canonical form (rule list of the spec) of the "
    "original; identical across rewrites; canon(json.loads(canon(S))) == canon(S); the canonical text parses and bytes "
    "written under S decode under it to the same value and vice versa for D_1 data. distinct_nontrivial = distinct schema "
    "texts canonicalised."
    " Each variant is canonicalised raw and pre-parsed (short-lived parsed object); named types named after the specification's non-primitive keywords are included."
)
ASSUMPTIONS = [
    "reference canonicaliser mc/ref/canon.py anchored to Apache vectors (selftest) and to mc/ref/names.py",
    "names and symbols in the family are ASCII identifiers, so [STRINGS] needs no escaping",
    "pure-Python fastavro only (Cython absent)",
]
UNIT_TIMEOUT_S = 900
PRIMS = family.PRIMS


def namespace_variants(s):
    """Spell the outermost named type with a namespace as attribute and as dotted name."""
    out = []
    if isinstance(s, dict) and s.get("type") in ("record", "enum", "fixed") and "." not in s["name"] and "namespace" not in s:
        a = copy.deepcopy(s)
        a["namespace"] = "a.b"
        b = copy.deepcopy(s)
        b["name"] = "a.b." + s["name"]
        out.append((a, b))
    return out


def schema_list(tier):
    base = family.schemas("quick")
    out = list(base)
    extra = [
        {"type": "record", "name": "com.example.Outer", "fields": [
            {"name": "k", "type": {"type": "enum", "name": "Kind", "symbols": ["A"]}}, {"name": "k2", "type": "Kind"}, {"name": "k3", "type": "com.example.Kind"},
            {"name": "in", "type": {"type": "record", "name": "Inner", "namespace": "other.ns", "fields": [{"name": "k", "type": "com.example.Kind"},
                                                                                                           {"name": "f", "type": {"type": "fixed", "name": "Fx", "size": 4}}]}},
            {"name": "f2", "type": "other.ns.Fx"}]},
        {"type": "record", "name": "Outer", "namespace": "ns", "fields": [
            {"name": "x", "type": {"type": "fixed", "name": "X", "namespace": "", "size": 2}},
            {"name": "y", "type": {"type": "fixed", "name": "X", "size": 3}}, {"name": "z", "type": "X"}, {"name": "w", "type": {"type": "array", "items": "ns.X"}}]},
        {"type": "error", "name": "Err", "fields": [{"name": "m", "type": "string"}]},
        # names with underscores in every position the grammar allows (first character of any dotted part included)
        {"type": "record", "name": "_Top", "namespace": "shop._internal._x", "fields": [
            {"name": "_f", "type": {"type": "enum", "name": "_E_", "symbols": ["_A", "B_", "_"]}}, {"name": "g", "type": "shop._internal._x._E_"},
            {"name": "h", "type": {"type": "fixed", "name": "_a._b.F_", "size": 1}}, {"name": "i", "type": "_a._b.F_"}]},
        {"type": "record", "name": "_", "fields": [{"name": "_", "type": "int"}]},
        # nested unions with two inline error definitions
        {"type": "record", "name": "Rpc", "fields": [{"name": "r", "type": ["null", {"type": "error", "name": "NotFound", "fields": [{"name": "m", "type": "string"}]},
                                                                           {"type": "error", "name": "Denied", "fields": [{"name": "c", "type": "int"}]}, "string"]},
                                                   {"name": "again", "type": ["Denied", "NotFound"]}]},
        {"type": "record", "name": "Zero", "fields": [{"name": "z", "type": {"type": "fixed", "name": "Z0", "size": 0}}, {"name": "zz", "type": {"type": "array", "items": "Z0"}}]},
        # a nested type whose namespace is the enclosing record's full name and whose simple name equals the field's name
        {"type": "record", "name": "Order", "namespace": "shop", "fields": [
            {"name": "Item", "type": {"type": "record", "name": "Item", "namespace": "shop.Order", "fields": [{"name": "sku", "type": "string"}]}},
            {"name": "Kind", "type": {"type": "enum", "name": "shop.Order.Kind", "symbols": ["A"]}}, {"name": "more", "type": {"type": "array", "items": "shop.Order.Item"}}]},
        {"type": "record", "name": "Job", "fields": [
            {"name": "policy", "type": {"type": "record", "name": "Policy", "fields": [
                {"name": "retries", "type": "int", "default": 0}, {"name": "label", "type": ["null", "string"], "default": None},
                {"name": "flag", "type": "boolean", "default": False}, {"name": "mode", "type": "string"}]}},
            {"name": "fallback", "type": "Policy"}, {"name": "opt", "type": ["Policy", "null"]}, {"name": "many", "type": {"type": "array", "items": "Policy"}}]},
        {"type": "record", "name": "shop.CustomerV2", "fields": [{"name": "id", "type": "int"}, {"name": "prev", "type": ["null", {"type": "record", "name": "Customer", "fields": [{"name": "id", "type": "int"}]}]},
                                                                 {"name": "k", "type": {"type": "enum", "name": "Kind", "symbols": ["A"]}}]},
    ] + [
        # named types whose simple name is one of the specification's non-primitive keywords: ordinary names
        {"type": "record", "name": "Holder", "namespace": ns, "fields": [
            {"name": "a", "type": ({"type": "record", "name": n, "fields": [{"name": "x", "type": "int"}]} if k9 % 3 == 0 else
                                   {"type": "enum", "name": n, "symbols": ["A", "B"]} if k9 % 3 == 1 else {"type": "fixed", "name": n, "size": 2})},
            {"name": "b", "type": n}, {"name": "c", "type": {"type": "array", "items": n}}, {"name": "d", "type": ["null", ns + "." + n]}]}
        for k9, (n, ns) in enumerate([("request", "com.api"), ("error", "com.api"), ("record", "n"), ("enum", "n"), ("fixed", "n.m"), ("array", "n"),
                                     ("map", "n"), ("union", "n"), ("error_union", "n")])
    ] + [
        {"type": "record", "name": "L3", "namespace": "p", "fields": [{"name": "a", "type": {"type": "record", "name": "L2", "fields": [
            {"name": "b", "type": {"type": "record", "name": "L1", "fields": [{"name": "e", "type": {"type": "enum", "name": "Deep", "symbols": ["Q"]}}]}}]}},
            {"name": "d", "type": "Deep"}, {"name": "d2", "type": "p.Deep"}]},
    ]
    return out + extra


def units(tier):
    canon.selftest()
    return list(range(len(schema_list(tier))))


def positions(s, path=()):
    """Yield (path, kind) for every schema node and field dict."""
    if isinstance(s, list):
        yield path, "union"
        for i, b in enumerate(s):
            yield from positions(b, path + (i,))
    elif isinstance(s, dict):
        yield path, "schema"
        t = s.get("type")
        if t in ("record", "error"):
            for i, f in enumerate(s["fields"]):
                yield path + ("fields", i), "field"
                yield from positions(f["type"], path + ("fields", i, "type"))
        elif t == "array":
            yield from positions(s["items"], path + ("items",))
        elif t == "map":
            yield from positions(s["values"], path + ("values",))
    else:
        yield path, "name"


def get(s, path):
    for p in path:
        s = s[p]
    return s


def put(s, path, v):
    if not path:
        return v
    parent = get(s, path[:-1])
    parent[path[-1]] = v
    return s


def rewrites(s, path, kind):
    """All single cosmetic rewrites of s at path; each returns a new schema."""
    out = []
    node = get(s, path)

    def with_node(newnode, label):
        c = copy.deepcopy(s)
        c = put(c, path, newnode)
        out.append((label, c))

    if kind == "schema":
        n = node
        t = n.get("type")
        with_node(dict(n, doc="some doc"), "doc")
        with_node(dict(n, custom={"a": [1, 2]}), "custom-attr")
        with_node({k: n[k] for k in reversed(list(n))}, "attr-order")
        if t in ("record", "enum", "fixed", "error"):
            with_node(dict(n, aliases=["Alias1", "x.y.Alias2"]), "aliases")
            # aliases that spell the names of OTHER types of the same schema (defined before or after): still only aliases
            try:
                others = [full for full in names.resolve(copy.deepcopy(s))[1]]
            except Exception:
                others = []
            mine = n.get("name", "").rsplit(".", 1)[-1]
            al = [o for o in others if o.rsplit(".", 1)[-1] != mine] + [o.rsplit(".", 1)[-1] for o in others if o.rsplit(".", 1)[-1] != mine]
            if al:
                with_node(dict(n, aliases=sorted(set(al))), "aliases-naming-other-types")
        if t == "enum":
            with_node(dict(n, default=n["symbols"][-1]), "enum-default")
        if t in PRIMS:
            lt = {"int": "date", "long": "timestamp-millis", "string": "uuid", "bytes": "decimal"}.get(t)
            if lt:
                extra = {"precision": 4, "scale": 2} if lt == "decimal" else {}
                with_node(dict(n, logicalType=lt, **extra), "logicalType")
                if lt == "decimal":
                    with_node(dict(n, logicalType=lt, precision=3, scale=3), "decimal-scale-equals-precision")
                    with_node(dict(n, logicalType=lt, precision=1), "decimal-no-scale")
            with_node(dict(n, logicalType="made-up"), "unknown-logicalType")
            if set(n) == {"type"}:
                with_node(t, "dict->name")
        if t == "fixed" and n["size"] >= 1:
            with_node(dict(n, logicalType="decimal", precision=2, scale=1), "fixed-decimal")
            with_node(dict(n, logicalType="decimal", precision=2, scale=2), "fixed-decimal-scale-equals-precision")
        if t == "record":
            with_node(dict(n, type="error"), "record->error")
        elif t == "error":
            with_node(dict(n, type="record"), "error->record")
    elif kind == "field":
        f = node
        with_node(dict(f, doc="field doc"), "field-doc")
        with_node(dict(f, aliases=["old_name"]), "field-aliases")
        with_node(dict(f, order="descending"), "field-order")
        with_node(dict(f, custom=True), "field-custom")
        with_node({k: f[k] for k in reversed(list(f))}, "field-attr-order")
        # a record-typed field (by name, or first union branch) given a PARTIAL default: only the sub-fields that have no
        # default of their own are spelled out
        try:
            ft = f["type"][0] if isinstance(f["type"], list) and f["type"] else f["type"]
            rdef = _inline(s, ft) if isinstance(ft, str) else ft
            if isinstance(rdef, dict) and rdef.get("type") == "record" and any("default" in sf for sf in rdef["fields"]):
                partial = {sf["name"]: family.default_for(_inline(s, sf["type"])) for sf in rdef["fields"] if "default" not in sf}
                with_node(dict(f, default=partial), "field-partial-record-default")
        except (KeyError, TypeError):
            pass
        # bytes / fixed fields given a default whose characters stand for byte values above 0x7F (one character = one byte)
        try:
            ft = f["type"]
            tdef = _inline(s, ft) if isinstance(ft, str) and ft not in PRIMS else ft
            if tdef == "bytes" or (isinstance(tdef, dict) and tdef.get("type") == "bytes" and "logicalType" not in tdef):
                with_node(dict(f, default="\u00ff\u0080\u0001"), "field-high-byte-default")
            elif isinstance(tdef, dict) and tdef.get("type") == "fixed" and "logicalType" not in tdef and tdef["size"] >= 1:
                with_node(dict(f, default=("\u00ff\u0001\u0080" * tdef["size"])[:tdef["size"]]), "field-high-byte-default")
        except (KeyError, TypeError):
            pass
        if "default" in f:
            with_node({k: v for k, v in f.items() if k != "default"}, "field-drop-default")
        else:
            try:
                with_node(dict(f, default=family.default_for(_inline(s, f["type"]))), "field-add-default")
            except (KeyError, TypeError):
                pass
    elif kind == "name":
        if node in PRIMS:
            with_node({"type": node}, "name->dict")
    return out


def _inline(root, t):
    """Definition a by-name reference stands for (only to pick a default), else t."""
    if isinstance(t, str) and t not in PRIMS:
        found = []

        def walk(x):
            if isinstance(x, list):
                for b in x:
                    walk(b)
            elif isinstance(x, dict):
                if x.get("name", "").split(".")[-1] == t.split(".")[-1] and x.get("type") in ("record", "enum", "fixed"):
                    found.append(x)
                for k in ("items", "values"):
                    if k in x:
                        walk(x[k])
                for f in x.get("fields", []) if x.get("type") in ("record", "error") else []:
                    walk(f["type"])

        walk(root)
        if found:
            return found[0]
        raise KeyError(t)
    return t


def spec_form_is_lossy(want):
    """The specification's canonical form drops namespace attributes; for a type in the
    null namespace nested inside a namespace the text no longer denotes the same names
    (re-reading it by the specification's own rules puts the type into the enclosing
    namespace).  For such schemas the fixed-point and 'valid schema for the same
    encoding' clauses cannot hold for any implementation of the rule list."""
    try:
        return canon.canonical(names.resolve(json.loads(want))) != want
    except Exception:
        return True


def check_one(fa, res, original, variant, label, want, seen):
    txt = json.dumps(variant, sort_keys=False)
    if txt in seen:
        return
    seen.add(txt)
    res.evals += 1
    info = {"schema": original, "variant": variant, "rewrite": label}
    note_case(info)
    try:
        got = fa.schema.to_parsing_canonical_form(copy.deepcopy(variant))
    except Exception as e:
        res.add(Violation("c13.canon", f"canonical-form-raised:{label}:{type(e).__name__}", f"to_parsing_canonical_form raised {type(e).__name__}: {e} | rewrite {label} of {short(original, 300)}", info))
        return
    try:
        ref_variant = canon.canonical(names.resolve(variant))
    except Exception as e:
        raise AssertionError(f"reference cannot canonicalise a cosmetic variant ({label}): {e} {variant}")
    assert ref_variant == want, ("rewrite is not cosmetic for the reference", label, variant)
    if got != want:
        res.add(Violation("c13.canon", f"canonical-form-differs:{label}", f"canonical form {got!r} != specification's {want!r} | rewrite {label} of {short(original, 300)}", info))
        return
    # the same schema handed over pre-parsed; the parsed object is short-lived on purpose (a result remembered
    # per object identity must not survive the object)
    try:
        got_p = fa.schema.to_parsing_canonical_form(fa.parse_schema(copy.deepcopy(variant)))
    except Exception as e:
        got_p = f"raised {type(e).__name__}: {e}"
    if got_p != want:
        res.add(Violation("c13.canon", f"canonical-form-differs:pre-parsed:{label}", f"canonical form of the pre-parsed schema {got_p!r} != specification's {want!r} | rewrite {label} of {short(original, 300)}", info))
        return
    if spec_form_is_lossy(want):
        res.stats["schemas_with_lossy_spec_form_skipped_for_fixpoint"] += 1
        return
    try:
        again = fa.schema.to_parsing_canonical_form(json.loads(got))
    except Exception as e:
        again = f"raised {type(e).__name__}: {e}"
    if again != got:
        res.add(Violation("c13.fixpoint", "not-a-fixed-point", f"canon(canon(S)) = {again!r} != canon(S) = {got!r}", info))


def embed_check(fa, res, raw, seen):
    if not (isinstance(raw, dict) and raw.get("type") in ("record", "enum", "fixed")) or "namespace" in raw or "." in raw["name"]:
        return
    try:
        inner_parsed = fa.parse_schema(copy.deepcopy(raw))
    except Exception:
        return
    inner_names = set(names.resolve(copy.deepcopy(raw))[1])
    if inner_names & {"Holder", "Holder2"}:
        return
    for outer_ns in ("", "x.y"):
        # a schema dict is a schema dict: embedded in another namespace its bare names are resolved there,
        # whether or not it has been through parse_schema before
        outer_raw = {"type": "record", "name": "Holder", "fields": [{"name": "h", "type": copy.deepcopy(raw)}, {"name": "again", "type": ["null", raw["name"]]}]}
        outer_mixed = {"type": "record", "name": "Holder", "fields": [{"name": "h", "type": inner_parsed}, {"name": "again", "type": ["null", raw["name"]]}]}
        if outer_ns:
            outer_raw["namespace"] = outer_ns
            outer_mixed["namespace"] = outer_ns
        try:
            want = canon.canonical(names.resolve(outer_raw))
        except Exception:
            continue
        res.evals += 1
        seen.add(("embed", outer_ns, json.dumps(raw, sort_keys=True)))
        info = {"schema": outer_raw, "variant": None, "rewrite": "embedded-parsed-type:" + (outer_ns or "<null>")}
        try:
            got = fa.schema.to_parsing_canonical_form(outer_mixed)
        except Exception as e:
            got = f"raised {type(e).__name__}: {e}"
        if got != want:
            res.add(Violation("c13.canon", f"canonical-form-differs:embedded-parsed-type", f"a schema embedding an already parsed {raw['name']} canonicalises to {got!r}, the same schema spelled raw gives {want!r}", info))


BROKEN = [
    # calls that fail part-way through: whatever they leave behind must not leak into the next call
    {"type": "record", "name": "Brk", "fields": [{"name": "a", "type": "int"}, {"name": "e", "type": {"type": "enum", "name": "NoSyms"}}],
     "__fastavro_parsed": True, "__named_schemas": {}},
    {"type": "record", "name": "Brk2", "fields": [{"name": "a", "type": "int"}, {"name": "f", "type": {"type": "fixed", "name": "NoSize"}}],
     "__fastavro_parsed": True, "__named_schemas": {}},
    {"type": "record", "name": "Brk3", "fields": [{"name": "a", "type": "Undefined"}]},
]


def run_unit(i, tier):
    import fastavro as fa
    import fastavro.schema  # noqa

    res = UnitResult()
    raw = schema_list(tier)[i]
    seen = set()
    for b in BROKEN:
        try:
            fa.schema.to_parsing_canonical_form(copy.deepcopy(b))
        except Exception:
            pass
    bases = [raw]
    for a, b in namespace_variants(raw):
        bases += [a, b]
    for base in bases:
        want = canon.canonical(names.resolve(base))
        check_one(fa, res, base, base, "identity", want, seen)
        singles = []
        for path, kind in positions(base):
            for label, v in rewrites(base, path, kind):
                singles.append((label, v, path))
                check_one(fa, res, base, v, label, want, seen)
        if tier == "thorough":
            for label, v, path in singles[:: max(1, len(singles) // 40)]:
                for path2, kind2 in positions(v):
                    for label2, v2 in rewrites(v, path2, kind2):
                        check_one(fa, res, base, v2, label + "+" + label2, want, seen)
    # namespace spelling pairs must agree with each other
    for a, b in namespace_variants(raw):
        ca, cb = canon.canonical(names.resolve(a)), canon.canonical(names.resolve(b))
        assert ca == cb
    # the canonical text describes the same binary encoding
    want = canon.canonical(names.resolve(raw))
    node, defs = names.resolve(raw)
    if spec_form_is_lossy(want):
        res.distinct = len(seen)
        res.sample({"schema": raw, "variants": len(seen), "lossy_spec_form": True})
        return res
    try:
        cschema = json.loads(fa.schema.to_parsing_canonical_form(copy.deepcopy(raw)))
        cnode, cdefs = names.resolve(cschema)
        data = alphabet.data_for(node, defs, 1, hints=False, big=False)
        for d, c in data:
            d = conform.normalise(node, defs, d)  # fully populated: the canonical form has no defaults
            res.evals += 1
            info = {"schema": raw, "datum": d, "rewrite": "encoding-equivalence"}
            fo1, fo2 = io.BytesIO(), io.BytesIO()
            fa.schemaless_writer(fo1, copy.deepcopy(raw), d)
            fa.schemaless_writer(fo2, copy.deepcopy(cschema), d)
            if fo1.getvalue() != fo2.getvalue():
                res.add(Violation("c13.encoding", "canonical-schema-encodes-differently", f"{short(d)}: {fo1.getvalue()[:40].hex()} under S, {fo2.getvalue()[:40].hex()} under canon(S) | {short(raw, 300)}", info))
                continue
            fo1.seek(0)
            fo2.seek(0)
            a = fa.schemaless_reader(fo1, copy.deepcopy(cschema))
            b = fa.schemaless_reader(fo2, copy.deepcopy(raw))
            if not same(a, b):
                res.add(Violation("c13.encoding", "canonical-schema-decodes-differently", f"{short(a)} vs {short(b)} | {short(raw, 300)}", info))
    except Exception as e:
        res.add(Violation("c13.encoding", f"canonical-text-unusable:{type(e).__name__}", f"canonical text of {short(raw, 300)} cannot be used as a schema: {type(e).__name__}: {e}", {"schema": raw, "rewrite": "encoding-equivalence"}))
    # an already parsed named type embedded in an unparsed schema (its names were resolved where it was parsed)
    embed_check(fa, res, raw, seen)
    res.distinct = len(seen)
    res.sample({"schema": raw, "variants": len(seen)})
    return res


def replay(case):
    import fastavro as fa
    import fastavro.schema  # noqa

    res = UnitResult()
    if "variant" in case and case["variant"] is None:
        i = [k for k, s in enumerate(schema_list("quick")) if isinstance(s, dict) and s.get("name") and case["schema"]["fields"][0]["type"].get("name") == s.get("name")]
        out = []
        for k in i[:3]:
            out += [v for v in run_unit(k, "quick").violations if "embedded" in v["sig"]]
        return out
    if "variant" in case:
        want = canon.canonical(names.resolve(case["schema"]))
        check_one(fa, res, case["schema"], case["variant"], case["rewrite"], want, set())
        return res.violations
    i = [k for k, s in enumerate(schema_list("quick")) if s == case["schema"]][0]
    r = run_unit(i, "quick")
    return [v for v in r.violations if v["check"] == "c13.encoding"]


def standalone(case):
    return ("import sys; sys.path.insert(0, '/repo')\nfrom fastavro.schema import to_parsing_canonical_form\n"
            f"print(to_parsing_canonical_form({case.get('variant', case['schema'])!r}))\n")
