"""CRC-64-AVRO from the specification text, bit-serial (no table)."""
EMPTY = 0xC15D213AA4D7A795

# Apache reference vectors (canonical form text -> little-endian hex), from the
# Avro project's schema-tests; used to anchor this reference independently of
# fastavro.
VECTORS = [
    # (canonical text, fingerprint as the 64-bit number Apache's schema-tests.txt lists)
    ('"null"', 0x63DD24E7CC258F8A),  # 7195948357588979594
    ('"int"', 0x7275D51A3F395C8F),
    ('"float"', 0x4D7C02CB3EA8D790),
    ('"string"', 0x8F014872634503C7),
]


def rabin_int(data: bytes) -> int:
    r = EMPTY
    for b in data:
        r ^= b
        for _ in range(8):
            r = (r >> 1) ^ EMPTY if r & 1 else r >> 1
    return r


def rabin_hex(data: bytes) -> str:
    v = rabin_int(data)
    return "".join("%02x" % ((v >> (8 * i)) & 0xFF) for i in range(8))


def selftest():
    for text, want in VECTORS:
        got = rabin_int(text.encode("utf-8"))
        assert got == want, (text, hex(got), hex(want))
        assert rabin_hex(text.encode("utf-8")) == want.to_bytes(8, "little").hex()
    assert rabin_int(b"") == EMPTY
