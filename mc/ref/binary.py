"""Avro binary encoding written from the specification; no fastavro imports.

encode() is parametrised by the block layout of arrays and maps so that it can
produce every specification-valid encoding; decode() accepts all of them and
reports the union branch indices it met, in encoding order."""
import struct

from .names import deref


class DecodeError(Exception):
    pass


def zigzag(n):
    """varint of the zig-zag code of n, by integer arithmetic."""
    z = 2 * n if n >= 0 else -2 * n - 1
    out = bytearray()
    while True:
        low = z % 128
        z //= 128
        if z:
            out.append(low + 128)
        else:
            out.append(low)
            return bytes(out)


def read_varint(buf, pos):
    z = 0
    mult = 1
    n = 0
    while True:
        if pos >= len(buf):
            raise DecodeError("short input in varint")
        b = buf[pos]
        pos += 1
        z += (b % 128) * mult
        mult *= 128
        n += 1
        if b < 128:
            break
        if n > 10:
            raise DecodeError("varint too long")
    v = z // 2 if z % 2 == 0 else -(z + 1) // 2
    return v, pos


class SingleBlock:
    def blocks(self, n):
        return [(n, False)] if n else []


def all_layouts(n):
    """Every way to cut n items into blocks, each positive or negative form."""
    if n == 0:
        return [[]]
    out = []

    def rec(rest, acc):
        if rest == 0:
            out.append(list(acc))
            return
        for c in range(1, rest + 1):
            for neg in (False, True):
                acc.append((c, neg))
                rec(rest - c, acc)
                acc.pop()

    rec(n, [])
    return out


def encode(node, defs, v, indices, layout=None):
    """v: normalised value; indices: conform.Indices giving the branch at each union."""
    layout = layout or SingleBlock()
    out = bytearray()
    _enc(node, defs, v, indices, layout, out)
    return bytes(out)


def _enc(node, defs, v, indices, layout, out):
    n = deref(node, defs)
    k = n["k"]
    if k == "null":
        return
    if k == "boolean":
        out.append(1 if v else 0)
    elif k in ("int", "long"):
        out += zigzag(v)
    elif k == "float":
        out += struct.pack("<f", v)
    elif k == "double":
        out += struct.pack("<d", v)
    elif k == "bytes":
        out += zigzag(len(v))
        out += v
    elif k == "string":
        b = v.encode("utf-8")
        out += zigzag(len(b))
        out += b
    elif k == "fixed":
        assert len(v) == n["size"]
        out += v
    elif k == "enum":
        out += zigzag(n["symbols"].index(v))
    elif k == "array":
        items = list(v)
        p = 0
        for cnt, neg in layout.blocks(len(items)):
            body = bytearray()
            for x in items[p:p + cnt]:
                _enc(n["items"], defs, x, indices, layout, body)
            p += cnt
            if neg:
                out += zigzag(-cnt)
                out += zigzag(len(body))
            else:
                out += zigzag(cnt)
            out += body
        assert p == len(items)
        out += zigzag(0)
    elif k == "map":
        items = list(v.items())
        p = 0
        for cnt, neg in layout.blocks(len(items)):
            body = bytearray()
            for key, x in items[p:p + cnt]:
                kb = key.encode("utf-8")
                body += zigzag(len(kb))
                body += kb
                _enc(n["values"], defs, x, indices, layout, body)
            p += cnt
            if neg:
                out += zigzag(-cnt)
                out += zigzag(len(body))
            else:
                out += zigzag(cnt)
            out += body
        assert p == len(items)
        out += zigzag(0)
    elif k == "union":
        i = indices.next()
        out += zigzag(i)
        _enc(n["branches"][i], defs, v, indices, layout, out)
    elif k == "record":
        for f in n["fields"]:
            _enc(f["type"], defs, v[f["name"]], indices, layout, out)
    else:
        raise AssertionError(k)


def decode(node, defs, buf, pos=0, marks=None):
    """-> (value, new_pos, indices).  marks, when a list, receives
    (offset, kind, arity) for every union/enum index position (used by C03 to
    plant out-of-range indices)."""
    idx = []
    v, pos = _dec(node, defs, buf, pos, idx, marks)
    return v, pos, idx


def _need(buf, pos, n):
    if n < 0 or pos + n > len(buf):
        raise DecodeError("short input")


def _dec(node, defs, buf, pos, idx, marks):
    n = deref(node, defs)
    k = n["k"]
    if k == "null":
        return None, pos
    if k == "boolean":
        _need(buf, pos, 1)
        return buf[pos] != 0, pos + 1
    if k in ("int", "long"):
        return read_varint(buf, pos)
    if k == "float":
        _need(buf, pos, 4)
        return struct.unpack("<f", buf[pos:pos + 4])[0], pos + 4
    if k == "double":
        _need(buf, pos, 8)
        return struct.unpack("<d", buf[pos:pos + 8])[0], pos + 8
    if k == "bytes":
        ln, pos = read_varint(buf, pos)
        _need(buf, pos, ln)
        return bytes(buf[pos:pos + ln]), pos + ln
    if k == "string":
        ln, pos = read_varint(buf, pos)
        _need(buf, pos, ln)
        try:
            return bytes(buf[pos:pos + ln]).decode("utf-8"), pos + ln
        except UnicodeDecodeError as e:
            raise DecodeError(str(e))
    if k == "fixed":
        _need(buf, pos, n["size"])
        return bytes(buf[pos:pos + n["size"]]), pos + n["size"]
    if k == "enum":
        at = pos
        i, pos = read_varint(buf, pos)
        if marks is not None:
            marks.append((at, pos, "enum", len(n["symbols"])))
        if not (0 <= i < len(n["symbols"])):
            raise DecodeError(f"enum index {i} out of range")
        return n["symbols"][i], pos
    if k in ("array", "map"):
        out = [] if k == "array" else {}
        while True:
            cnt, pos = read_varint(buf, pos)
            if cnt == 0:
                return out, pos
            if cnt < 0:
                cnt = -cnt
                _size, pos = read_varint(buf, pos)
            for _ in range(cnt):
                if k == "array":
                    x, pos = _dec(n["items"], defs, buf, pos, idx, marks)
                    out.append(x)
                else:
                    ln, pos = read_varint(buf, pos)
                    _need(buf, pos, ln)
                    try:
                        key = bytes(buf[pos:pos + ln]).decode("utf-8")
                    except UnicodeDecodeError as e:
                        raise DecodeError(str(e))
                    pos += ln
                    x, pos = _dec(n["values"], defs, buf, pos, idx, marks)
                    out[key] = x
    if k == "union":
        at = pos
        i, pos = read_varint(buf, pos)
        if marks is not None:
            marks.append((at, pos, "union", len(n["branches"])))
        if not (0 <= i < len(n["branches"])):
            raise DecodeError(f"union index {i} out of range")
        idx.append(i)
        return _dec(n["branches"][i], defs, buf, pos, idx, marks)
    if k == "record":
        out = {}
        for f in n["fields"]:
            out[f["name"]], pos = _dec(f["type"], defs, buf, pos, idx, marks)
        return out, pos
    raise AssertionError(k)
