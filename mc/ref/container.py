"""Avro object container files, parser and writer from the specification
(DESIGN.md A.7).  No fastavro imports."""
import bz2
import json
import lzma
import zlib

from . import binary, names
from .binary import read_varint, zigzag, DecodeError

MAGIC = b"Obj\x01"


class ContainerError(Exception):
    pass


def _decompress(codec, data):
    if codec == "null":
        return data
    if len(data) == 0:
        # no compressed stream of any of these formats is zero bytes long (an empty payload still has its end-of-stream framing)
        raise ContainerError(f"{codec} block with a zero-length compressed payload")
    if codec == "deflate":
        d = zlib.decompressobj(-15)
        return d.decompress(data) + d.flush()
    if codec == "bzip2":
        return bz2.decompress(data)
    if codec == "xz":
        return lzma.decompress(data, format=lzma.FORMAT_XZ)  # the .xz container format, not a legacy .lzma stream
    raise ContainerError(f"codec {codec!r} not available to the reference")


def compress(codec, data):
    if codec == "null":
        return data
    if codec == "deflate":
        c = zlib.compressobj(6, zlib.DEFLATED, -15)
        return c.compress(data) + c.flush()
    if codec == "bzip2":
        return bz2.compress(data)
    if codec == "xz":
        return lzma.compress(data)
    raise ContainerError(codec)


def parse_header(buf):
    if buf[:4] != MAGIC:
        raise ContainerError("bad magic")
    pos = 4
    meta = {}
    try:
        while True:
            cnt, pos = read_varint(buf, pos)
            if cnt == 0:
                break
            if cnt < 0:
                cnt = -cnt
                _sz, pos = read_varint(buf, pos)
            for _ in range(cnt):
                ln, pos = read_varint(buf, pos)
                if ln < 0 or pos + ln > len(buf):
                    raise ContainerError("short header")
                key = bytes(buf[pos:pos + ln]).decode("utf-8")
                pos += ln
                ln, pos = read_varint(buf, pos)
                if ln < 0 or pos + ln > len(buf):
                    raise ContainerError("short header")
                meta[key] = bytes(buf[pos:pos + ln])
                pos += ln
    except DecodeError as e:
        raise ContainerError(str(e))
    if pos + 16 > len(buf):
        raise ContainerError("short header (sync)")
    sync = bytes(buf[pos:pos + 16])
    return meta, sync, pos + 16


def parse(buf):
    """-> dict(meta, sync, header_end, codec, schema (json value), blocks=[dict(offset,
    end, count, payload)]).  Strict: every block must be complete."""
    meta, sync, pos = parse_header(buf)
    hdr = pos
    codec = meta.get("avro.codec", b"null").decode()
    if "avro.schema" not in meta:
        raise ContainerError("no avro.schema")
    schema = json.loads(meta["avro.schema"].decode("utf-8"))
    blocks = []
    while pos < len(buf):
        off = pos
        try:
            cnt, pos = read_varint(buf, pos)
            size, pos = read_varint(buf, pos)
        except DecodeError as e:
            raise ContainerError(f"block header at {off}: {e}")
        if cnt < 0 or size < 0 or pos + size + 16 > len(buf):
            raise ContainerError(f"block at {off}: count {cnt} size {size} exceeds file")
        data = bytes(buf[pos:pos + size])
        pos += size
        if bytes(buf[pos:pos + 16]) != sync:
            raise ContainerError(f"block at {off}: sync marker mismatch")
        pos += 16
        try:
            payload = _decompress(codec, data)
        except ContainerError:
            raise
        except Exception as e:
            raise ContainerError(f"block at {off}: {type(e).__name__}: {e}")
        blocks.append({"offset": off, "end": pos, "count": cnt, "payload": payload, "raw": data})
    return {"meta": meta, "sync": sync, "hdr_end": hdr, "codec": codec, "schema": schema, "blocks": blocks}


def header_end(buf):
    return parse_header(buf)[2]


def records(parsed, resolved=None):
    node, defs = resolved or names.resolve(parsed["schema"])
    out = []
    per_block = []
    for b in parsed["blocks"]:
        pos = 0
        here = []
        for _ in range(b["count"]):
            v, pos, _ = binary.decode(node, defs, b["payload"], pos)
            here.append(v)
        if pos != len(b["payload"]):
            raise ContainerError(f"block at {b['offset']}: {len(b['payload']) - pos} undecoded payload bytes")
        per_block.append(here)
        out += here
    return out, per_block


def write_map(entries, chunks):
    """entries: list of (key str, value bytes); chunks: list of (count, neg)."""
    out = bytearray()
    p = 0
    for cnt, neg in chunks:
        body = bytearray()
        for k, v in entries[p:p + cnt]:
            kb = k.encode("utf-8")
            body += zigzag(len(kb)) + kb + zigzag(len(v)) + v
        p += cnt
        if neg:
            out += zigzag(-cnt) + zigzag(len(body))
        else:
            out += zigzag(cnt)
        out += body
    assert p == len(entries)
    out += zigzag(0)
    return bytes(out)


def compress_variants(codec):
    """Other ways a conforming writer may produce the same codec's payload: name -> function(bytes) -> bytes."""
    if codec == "deflate":
        def mk(level, strategy=zlib.Z_DEFAULT_STRATEGY):
            def f(data):
                c = zlib.compressobj(level, zlib.DEFLATED, -15, 9, strategy)
                return c.compress(data) + c.flush()
            return f
        return {"stored-blocks": mk(0), "level-9": mk(9), "huffman-only": mk(6, zlib.Z_HUFFMAN_ONLY), "level-1": mk(1)}
    if codec == "bzip2":
        return {"level-1": lambda d: bz2.compress(d, 1), "two-streams": None}
    if codec == "xz":
        big = [{"id": lzma.FILTER_LZMA2, "preset": 0, "dict_size": 1 << 26}]
        return {
            "dict-64MiB": lambda d: lzma.compress(d, format=lzma.FORMAT_XZ, filters=big),          # what `xz -9` declares
            "check-none": lambda d: lzma.compress(d, format=lzma.FORMAT_XZ, check=lzma.CHECK_NONE),
            "check-sha256": lambda d: lzma.compress(d, format=lzma.FORMAT_XZ, check=lzma.CHECK_SHA256),
            "check-crc32": lambda d: lzma.compress(d, format=lzma.FORMAT_XZ, check=lzma.CHECK_CRC32),
            "preset-0": lambda d: lzma.compress(d, format=lzma.FORMAT_XZ, preset=0),
        }
    return {}


def write(entries, chunks, sync, codec, blocks, compressor=None):
    """blocks: list of (count, payload bytes).  entries decide whether the codec
    key is present."""
    out = bytearray(MAGIC)
    out += write_map(entries, chunks)
    out += sync
    for cnt, payload in blocks:
        data = compressor(payload) if compressor is not None else compress(codec, payload)
        out += zigzag(cnt) + zigzag(len(data)) + data + sync
    return bytes(out)
