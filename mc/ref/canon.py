"""Parsing Canonical Form by the specification's rule list (DESIGN.md A.6),
computed on the resolved tree of mc.ref.names (so [FULLNAMES] is by
construction), independent of fastavro."""
from .names import PRIMS


def canonical(resolved):
    node, _defs = resolved
    out = []
    _c(node, out)
    return "".join(out)


def _q(s):
    return '"' + s + '"'


def _c(n, out):
    k = n["k"]
    if k in PRIMS:
        out.append(_q(k))  # [PRIMITIVES]
    elif k == "ref":
        out.append(_q(n["name"]))
    elif k == "union":
        out.append("[")
        for i, b in enumerate(n["branches"]):
            if i:
                out.append(",")
            _c(b, out)
        out.append("]")
    elif k == "array":
        out.append('{"type":"array","items":')
        _c(n["items"], out)
        out.append("}")
    elif k == "map":
        out.append('{"type":"map","values":')
        _c(n["values"], out)
        out.append("}")
    elif k == "enum":
        out.append('{"name":' + _q(n["name"]) + ',"type":"enum","symbols":[' + ",".join(_q(s) for s in n["symbols"]) + "]}")
    elif k == "fixed":
        out.append('{"name":' + _q(n["name"]) + ',"type":"fixed","size":' + str(int(n["size"])) + "}")
    elif k == "record":
        out.append('{"name":' + _q(n["name"]) + ',"type":"record","fields":[')
        for i, f in enumerate(n["fields"]):
            if i:
                out.append(",")
            out.append('{"name":' + _q(f["name"]) + ',"type":')
            _c(f["type"], out)
            out.append("}")
        out.append("]}")
    else:
        raise AssertionError(k)


# Apache vectors (schema text -> canonical form), from the specification /
# avro's schema-tests.txt, to anchor this reference.
VECTORS = [
    ('{"type":"fixed", "name":"foo", "size":15, "namespace": "x.y"}'.replace('"name":"foo"', '"name":"Test"'),
     '{"name":"x.y.Test","type":"fixed","size":15}'),
    ('{ "type": "enum", "name": "foo", "symbols": ["A1"] , "namespace": "x.y.z"}',
     '{"name":"x.y.z.foo","type":"enum","symbols":["A1"]}'),
    ('{"type":"record","name":"foo","fields":[{"name":"f1","type":"boolean"}]}',
     '{"name":"foo","type":"record","fields":[{"name":"f1","type":"boolean"}]}'),
    ('{ "fields":[{"type":"boolean", "aliases":[], "name":"f1", "default":true}, {"order":"descending","name":"f2","doc":"Hello","type":"int"}], "type":"record", "name":"foo"}',
     '{"name":"foo","type":"record","fields":[{"name":"f1","type":"boolean"},{"name":"f2","type":"int"}]}'),
    ('{"type":"record","name":"foo","namespace":"x.y","fields":[{"name":"a","type":{"type":"enum","name":"e","symbols":["A"]}},{"name":"b","type":"e"},{"name":"c","type":{"type":"array","items":"x.y.e"}}]}',
     '{"name":"x.y.foo","type":"record","fields":[{"name":"a","type":{"name":"x.y.e","type":"enum","symbols":["A"]}},{"name":"b","type":"x.y.e"},{"name":"c","type":{"type":"array","items":"x.y.e"}}]}'),
    ('["null", {"type":"int"}, "string"]', '["null","int","string"]'),
    ('{"type":"map","values":{"type":"long"}}', '{"type":"map","values":"long"}'),
]


def selftest():
    import json
    from . import names

    for text, want in VECTORS:
        got = canonical(names.resolve(json.loads(text)))
        assert got == want, (text, got, want)
