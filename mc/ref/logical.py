"""Logical-type conversions by integer arithmetic, from the specification.
No fastavro imports."""
import datetime
import decimal
import uuid

from .names import deref

EPOCH_ORD = 719163  # date(1970,1,1).toordinal()
UTC = datetime.timezone.utc
EPOCH_AWARE = datetime.datetime(1970, 1, 1, tzinfo=UTC)
EPOCH_NAIVE = datetime.datetime(1970, 1, 1)

SUPPORTED = {
    ("int", "date"), ("int", "time-millis"), ("long", "time-micros"), ("long", "timestamp-millis"), ("long", "timestamp-micros"),
    ("long", "local-timestamp-millis"), ("long", "local-timestamp-micros"), ("string", "uuid"), ("bytes", "decimal"), ("fixed", "decimal"),
}


class MustRaise(Exception):
    """The value cannot be represented: the writer is required to raise."""


def active(n):
    return (n["k"], n.get("logical")) in SUPPORTED


def _micros_since(dt, local):
    if local:
        delta = dt.replace(tzinfo=None) - EPOCH_NAIVE
    else:
        if dt.tzinfo is None:
            dt = dt.replace(tzinfo=UTC)  # only used with TZ=UTC
        delta = dt - EPOCH_AWARE
    return (delta.days * 86400 + delta.seconds) * 1000000 + delta.microseconds


def decimal_unscaled(n, d):
    """-> unscaled integer, or MustRaise by the statement's three causes."""
    scale = n.get("scale", 0)
    precision = n["precision"]
    sign, digits, exp = d.as_tuple()
    if not isinstance(exp, int):
        raise MustRaise("NaN/Infinity")
    if len(digits) > precision:
        raise MustRaise("more significant digits than the precision")
    if -exp > scale:
        raise MustRaise("more fractional digits than the scale")
    coeff = int("".join(map(str, digits))) if digits else 0
    unscaled = coeff * 10 ** (exp + scale)
    if sign:
        unscaled = -unscaled
    if n["k"] == "fixed":
        bits = 8 * n["size"]
        if not (-(1 << (bits - 1)) <= unscaled <= (1 << (bits - 1)) - 1):
            raise MustRaise("does not fit the fixed size")
    return unscaled


def twos(unscaled, size):
    return (unscaled % (1 << (8 * size))).to_bytes(size, "big")


def to_underlying(n, d):
    k, lt = n["k"], n.get("logical")
    if not active(n):
        return d
    if lt == "date":
        if isinstance(d, datetime.date) and not isinstance(d, datetime.datetime):
            return d.toordinal() - EPOCH_ORD
        if isinstance(d, datetime.datetime):
            return d.toordinal() - EPOCH_ORD
        return d
    if lt == "time-millis":
        if isinstance(d, datetime.time):
            return d.hour * 3600000 + d.minute * 60000 + d.second * 1000 + d.microsecond // 1000
        return d
    if lt == "time-micros":
        if isinstance(d, datetime.time):
            return d.hour * 3600000000 + d.minute * 60000000 + d.second * 1000000 + d.microsecond
        return d
    if lt in ("timestamp-millis", "local-timestamp-millis"):
        if isinstance(d, datetime.datetime):
            return _micros_since(d, lt.startswith("local")) // 1000
        return d
    if lt in ("timestamp-micros", "local-timestamp-micros"):
        if isinstance(d, datetime.datetime):
            return _micros_since(d, lt.startswith("local"))
        return d
    if lt == "uuid":
        if isinstance(d, uuid.UUID):
            return str(d)
        return d
    if lt == "decimal":
        if isinstance(d, decimal.Decimal):
            u = decimal_unscaled(n, d)
            if k == "fixed":
                return twos(u, n["size"])
            ln = 1
            while not (-(1 << (8 * ln - 1)) <= u <= (1 << (8 * ln - 1)) - 1):
                ln += 1
            return twos(u, ln)
        return d
    raise AssertionError(lt)


def from_underlying(n, v):
    lt = n.get("logical")
    if not active(n):
        return v
    if lt == "date":
        return datetime.date.fromordinal(v + EPOCH_ORD)
    if lt == "time-millis":
        return datetime.time(v // 3600000, v // 60000 % 60, v // 1000 % 60, v % 1000 * 1000)
    if lt == "time-micros":
        return datetime.time(v // 3600000000, v // 60000000 % 60, v // 1000000 % 60, v % 1000000)
    if lt == "timestamp-millis":
        return EPOCH_AWARE + datetime.timedelta(microseconds=v * 1000)
    if lt == "timestamp-micros":
        return EPOCH_AWARE + datetime.timedelta(microseconds=v)
    if lt == "local-timestamp-millis":
        return EPOCH_NAIVE + datetime.timedelta(microseconds=v * 1000)
    if lt == "local-timestamp-micros":
        return EPOCH_NAIVE + datetime.timedelta(microseconds=v)
    if lt == "uuid":
        return uuid.UUID(v)
    if lt == "decimal":
        u = int.from_bytes(v, "big", signed=True)
        return decimal.Decimal(u).scaleb(-n.get("scale", 0), decimal.Context(prec=max(n["precision"], len(str(abs(u))))))
    raise AssertionError(lt)


def normalise(n, d):
    return from_underlying(n, to_underlying(n, d))


def from_underlying_deep(node, defs, v):
    n = deref(node, defs)
    k = n["k"]
    if "logical" in n and active(n):
        return from_underlying(n, v)
    if k == "array":
        return [from_underlying_deep(n["items"], defs, x) for x in v]
    if k == "map":
        return {kk: from_underlying_deep(n["values"], defs, x) for kk, x in v.items()}
    if k == "record":
        return {f["name"]: from_underlying_deep(f["type"], defs, v[f["name"]]) for f in n["fields"]}
    if k == "union":
        # value alone does not tell the branch: find the first branch whose kind fits (fixtures only)
        for b in n["branches"]:
            bn = deref(b, defs)
            if _fits(bn, v):
                return from_underlying_deep(b, defs, v)
        return v
    return v


def _fits(n, v):
    k = n["k"]
    return (
        (k == "null" and v is None) or (k == "boolean" and isinstance(v, bool)) or (k in ("int", "long") and type(v) is int)
        or (k in ("float", "double") and isinstance(v, float)) or (k in ("bytes", "fixed") and isinstance(v, bytes))
        or (k in ("string", "enum") and isinstance(v, str)) or (k == "array" and isinstance(v, list))
        or (k in ("map", "record") and isinstance(v, dict))
    )
