"""The documented Python mapping as a predicate, normalisation and the
branch-choice rule of C09 (DESIGN.md A.1-A.3).  No fastavro imports."""
import struct
from collections.abc import Mapping, Sequence

from .names import deref, branch_name, accepts_null, default_value

INT_MIN, INT_MAX = -(1 << 31), (1 << 31) - 1
LONG_MIN, LONG_MAX = -(1 << 63), (1 << 63) - 1


def _logical_prepare(n, d):
    if "logical" in n:
        from . import logical

        return logical.to_underlying(n, d)
    return d


def conforms(node, defs, d, strict=False, tuples=True):
    n = deref(node, defs)
    k = n["k"]
    if "logical" in n:
        try:
            d = _logical_prepare(n, d)
        except Exception:
            return False
    if k == "null":
        return d is None
    if k == "boolean":
        return isinstance(d, bool)
    if k == "int":
        return isinstance(d, int) and not isinstance(d, bool) and INT_MIN <= d <= INT_MAX
    if k == "long":
        return isinstance(d, int) and not isinstance(d, bool) and LONG_MIN <= d <= LONG_MAX
    if k in ("float", "double"):
        return isinstance(d, (int, float)) and not isinstance(d, bool)
    if k == "bytes":
        return isinstance(d, (bytes, bytearray))
    if k == "string":
        return isinstance(d, str)
    if k == "fixed":
        return isinstance(d, bytes) and len(d) == n["size"]
    if k == "enum":
        return isinstance(d, str) and d in n["symbols"]
    if k == "array":
        return (
            isinstance(d, Sequence)
            and not isinstance(d, str)
            and all(conforms(n["items"], defs, x, strict, tuples) for x in d)
        )
    if k == "map":
        return (
            isinstance(d, Mapping)
            and all(isinstance(key, str) for key in d)
            and all(conforms(n["values"], defs, x, strict, tuples) for x in d.values())
        )
    if k == "record":
        if not isinstance(d, Mapping):
            return False
        if "-type" in d and d["-type"] != n["name"]:
            return False
        for f in n["fields"]:
            if f["name"] in d:
                if not conforms(f["type"], defs, d[f["name"]], strict, tuples):
                    return False
            else:
                if "default" in f:
                    continue
                if strict or not accepts_null(f["type"], defs):
                    return False
        return True
    if k == "union":
        if tuples and isinstance(d, tuple):
            if len(d) != 2:
                return False
            name, val = d
            for b in n["branches"]:
                if branch_name(b, defs) == name:
                    return conforms(b, defs, val, strict, tuples)
            return False
        return any(conforms(b, defs, d, strict, tuples) for b in n["branches"])
    raise AssertionError(k)


def f32(x):
    return struct.unpack("<f", struct.pack("<f", x))[0]


def representable(node, defs, d):
    """C10 restricts float leaves to values the width can represent."""
    n = deref(node, defs)
    if n["k"] == "float" and isinstance(d, (int, float)) and not isinstance(d, bool):
        try:
            struct.pack("<f", d)
        except (OverflowError, struct.error):
            return False
    if n["k"] in ("double",) and isinstance(d, int) and not isinstance(d, bool):
        try:
            float(d)
        except OverflowError:
            return False
    return True


def choose_branch(n, defs, d, tuples=True):
    """C09's rule.  Returns (index, value_without_hint, defined) where `defined`
    is False when the statement is silent (a datum conforming to both a record
    and a non-record branch); index is then the first conforming branch and the
    caller must only assert conformance and determinism.  None when nothing
    conforms; raises LookupError for a hint naming no branch."""
    br = n["branches"]
    if tuples and isinstance(d, tuple) and len(d) == 2:
        name, val = d
        for i, b in enumerate(br):
            if branch_name(b, defs) == name:
                return i, val, True
        raise LookupError(name)
    ok = [i for i, b in enumerate(br) if conforms(b, defs, d, False, tuples)]
    if not ok:
        return None
    kinds = [deref(br[i], defs)["k"] for i in ok]
    recs = [i for i, kd in zip(ok, kinds) if kd == "record"]
    if recs and len(recs) != len(ok):
        return ok[0], d, False
    if recs:
        best, bestn = None, -1
        for i in recs:
            fields = {f["name"] for f in deref(br[i], defs)["fields"]}
            c = len(fields & set(d))
            if c > bestn:
                best, bestn = i, c
        return best, d, True
    first = ok[0]
    if kinds[0] == "float":
        for i in range(first + 1, len(br)):
            if deref(br[i], defs)["k"] == "double" and "logical" not in deref(br[i], defs):
                return i, d, True
    return first, d, True


class Indices:
    """Union branch indices in encoding order (as the reference decoder saw them)."""

    def __init__(self, seq):
        self.seq = list(seq)
        self.i = 0

    def next(self):
        v = self.seq[self.i]
        self.i += 1
        return v

    def done(self):
        return self.i == len(self.seq)


def normalise(node, defs, d, indices=None, tuples=True):
    """A.2.  `indices` (an Indices) tells which branch the writer took at each
    union, in encoding order; without it the C09 rule is used."""
    n = deref(node, defs)
    k = n["k"]
    if "logical" in n:
        from . import logical

        if logical.active(n):  # an unknown annotation, or a known one on the wrong base type, is ignored
            return logical.normalise(n, d)
    if k in ("null", "boolean", "int", "long", "string", "enum", "fixed"):
        return d
    if k == "double":
        return float(d)
    if k == "float":
        return f32(float(d))
    if k == "bytes":
        return bytes(d)
    if k == "array":
        return [normalise(n["items"], defs, x, indices, tuples) for x in d]
    if k == "map":
        return {key: normalise(n["values"], defs, x, indices, tuples) for key, x in d.items()}
    if k == "record":
        out = {}
        for f in n["fields"]:
            if f["name"] in d:
                v = d[f["name"]]
            elif "default" in f:
                v = default_value(f["type"], defs, f["default"])
            else:
                v = None
            out[f["name"]] = normalise(f["type"], defs, v, indices, tuples)
        return out
    if k == "union":
        if tuples and isinstance(d, tuple) and len(d) == 2:
            val = d[1]
            hinted = True
        else:
            val = d
            hinted = False
        if isinstance(indices, Indices):
            i = indices.next()
        else:
            i = choose_branch(n, defs, d, tuples)[0]
            if isinstance(indices, list):
                indices.append(i)
        if not (0 <= i < len(n["branches"])):
            raise IndexError(i)
        return normalise(n["branches"][i], defs, val, indices, tuples)
    raise AssertionError(k)


def check_choices(node, defs, d, indices, tuples=True, path="$"):
    """Walk datum and the writer's branch indices together; return a list of
    problems: a chosen branch the datum does not conform to, a hint not
    honoured, or (where C09's rule is defined) a choice different from the rule."""
    n = deref(node, defs)
    k = n["k"]
    out = []
    if "logical" in n:
        return out
    if k == "array":
        for i, x in enumerate(d):
            out += check_choices(n["items"], defs, x, indices, tuples, f"{path}[{i}]")
    elif k == "map":
        for key, x in d.items():
            out += check_choices(n["values"], defs, x, indices, tuples, f"{path}{{{key!r}}}")
    elif k == "record":
        for f in n["fields"]:
            if f["name"] in d:
                v = d[f["name"]]
            elif "default" in f:
                v = default_value(f["type"], defs, f["default"])
            else:
                v = None
            out += check_choices(f["type"], defs, v, indices, tuples, f"{path}.{f['name']}")
    elif k == "union":
        i = indices.next()
        if not (0 <= i < len(n["branches"])):
            return [("index-out-of-range", path, i)]
        try:
            rule = choose_branch(n, defs, d, tuples)
        except LookupError:
            return [("hint-names-no-branch-but-written", path, i)]
        if rule is None:
            return [("nothing-conforms-but-written", path, i)]
        want, val, defined = rule
        if not conforms(n["branches"][i], defs, val, False, tuples):
            out.append(("chosen-branch-does-not-conform", path, i))
            return out
        if defined and want != i:
            hinted = tuples and isinstance(d, tuple)
            out.append(("hint-not-honoured" if hinted else "rule-mismatch", path, (i, want)))
        out += check_choices(n["branches"][i], defs, val, indices, tuples, path + f"<{i}>")
    return out


def plan(node, defs, d, tuples=True):
    """-> (normalised value, union indices in encoding order) by C09's rule
    (first conforming branch where the rule is silent)."""
    rec = []
    v = normalise(node, defs, d, rec, tuples)
    return v, rec
