"""Name resolution per the Avro specification (DESIGN.md A.5).

resolve(schema) -> (node, defs): a tree of plain dicts with a kind tag "k" and
every named type carrying its full name; by-name references become
{"k": "ref", "name": full}; defs maps full name -> definition node.
Independent of fastavro: nothing is imported from it."""

PRIMS = ("null", "boolean", "int", "long", "float", "double", "bytes", "string")
MISSING = object()


class RefSchemaError(Exception):
    """The schema is ill-formed by the specification."""


def fullname(name, namespace_attr, enclosing):
    """A.5: dotted name wins; else explicit non-empty namespace; else enclosing."""
    if "." in name:
        return name.rsplit(".", 1)[0], name
    ns = enclosing if namespace_attr is MISSING else namespace_attr
    if ns:
        return ns, ns + "." + name
    return "", name


def resolve(schema, defs=None):
    defs = {} if defs is None else defs
    node = _res(schema, "", defs)
    return node, defs


def _logical(schema, node):
    lt = schema.get("logicalType")
    if lt is not None:
        node["logical"] = lt
        for k in ("precision", "scale"):
            if k in schema:
                node[k] = schema[k]
    return node


def _res(s, ns, defs):
    if isinstance(s, list):
        if any(isinstance(b, list) for b in s):
            raise RefSchemaError("a union may not immediately contain another union")
        branches = [_res(b, ns, defs) for b in s]
        kinds = []
        for b in branches:
            d = b if b["k"] != "ref" else defs[b["name"]]
            kinds.append(("named", d["name"]) if d["k"] in ("record", "enum", "fixed") else d["k"])
        if len(set(kinds)) != len(kinds):
            raise RefSchemaError("a union may not contain two schemas of the same type (named types: of the same name)")
        return {"k": "union", "branches": branches}
    if isinstance(s, str):
        if s in PRIMS:
            return {"k": s}
        full = s if "." in s else (ns + "." + s if ns else s)
        if full not in defs:
            raise RefSchemaError(f"undefined name {full}")
        return {"k": "ref", "name": full}
    if not isinstance(s, dict):
        raise RefSchemaError(f"not a schema: {s!r}")
    t = s.get("type")
    if isinstance(t, (list, dict)):
        # {"type": {...}} nesting is legal JSON schema syntax: the inner schema
        return _res(t, ns, defs)
    if t in PRIMS:
        return _logical(s, {"k": t})
    if t == "array":
        return {"k": "array", "items": _res(s["items"], ns, defs)}
    if t == "map":
        return {"k": "map", "values": _res(s["values"], ns, defs)}
    if t in ("record", "error", "enum", "fixed"):
        if "name" not in s:
            raise RefSchemaError("named type without name")
        space, full = fullname(s["name"], s.get("namespace", MISSING), ns)
        if full in defs:
            raise RefSchemaError(f"redefinition of {full}")
        aliases = list(s.get("aliases", []))
        if t == "enum":
            if len(set(map(str, s["symbols"]))) != len(s["symbols"]):
                raise RefSchemaError(f"duplicate symbols in {full}")
            node = {"k": "enum", "name": full, "symbols": list(s["symbols"]), "aliases": aliases}
            if "default" in s:
                node["default"] = s["default"]
            defs[full] = node
            return node
        if t == "fixed":
            node = _logical(s, {"k": "fixed", "name": full, "size": s["size"], "aliases": aliases})
            defs[full] = node
            return node
        node = {"k": "record", "name": full, "fields": [], "aliases": aliases}
        defs[full] = node
        fnames = [f["name"] for f in s.get("fields", [])]
        if len(set(fnames)) != len(fnames):
            raise RefSchemaError(f"duplicate field names in {full}")
        for f in s.get("fields", []):
            fn = {"name": f["name"], "type": _res(f["type"], space, defs), "aliases": list(f.get("aliases", []))}
            if "default" in f:
                fn["default"] = f["default"]
            node["fields"].append(fn)
        return node
    if isinstance(t, str):
        # {"type": "Name"} referring to a named type
        return _res(t, ns, defs)
    raise RefSchemaError(f"unknown type {t!r}")


def deref(node, defs):
    while node["k"] == "ref":
        node = defs[node["name"]]
    return node


def branch_name(node, defs):
    """Name by which a union branch is addressed: full name for named types,
    the type name otherwise (specification, JSON encoding / fastavro hints)."""
    n = deref(node, defs)
    if n["k"] in ("record", "enum", "fixed"):
        return n["name"]
    return n["k"]


def accepts_null(node, defs):
    n = deref(node, defs)
    if n["k"] == "null":
        return True
    if n["k"] == "union":
        return any(deref(b, defs)["k"] == "null" for b in n["branches"])
    return False


def default_value(node, defs, default):
    """The Python value denoted by a field default given in the specification's
    JSON form: bytes and fixed are strings of code points 0-255, a union default
    belongs to the first branch, containers recurse."""
    n = deref(node, defs)
    k = n["k"]
    if k == "union":
        return default_value(n["branches"][0], defs, default) if n["branches"] else default
    if k in ("bytes", "fixed") and isinstance(default, str):
        return bytes(ord(c) for c in default)
    if k == "array" and isinstance(default, list):
        return [default_value(n["items"], defs, x) for x in default]
    if k == "map" and isinstance(default, dict):
        return {kk: default_value(n["values"], defs, x) for kk, x in default.items()}
    if k == "record" and isinstance(default, dict):
        out = dict(default)
        for f in n["fields"]:
            if f["name"] in default:
                out[f["name"]] = default_value(f["type"], defs, default[f["name"]])
        return out
    return default


def to_schema(node, defs, field_filter=None, record_hook=None):
    """A JSON schema again from a resolved tree: full names spelled in "name", every definition at its first use and by
    (full) name afterwards.  field_filter(record_full_name, field_index, field) -> bool drops fields; record_hook(full_name,
    schema_dict) may edit a record definition after it is built.  (Both kinds of record come back as "record".)"""
    emitted = set()

    def emit(n):
        k = n["k"]
        if k == "ref":
            if n["name"] in emitted:
                return n["name"]
            return emit(defs[n["name"]])
        if k == "union":
            return [emit(b) for b in n["branches"]]
        if k == "array":
            return {"type": "array", "items": emit(n["items"])}
        if k == "map":
            return {"type": "map", "values": emit(n["values"])}
        if k in ("record", "enum", "fixed"):
            if n["name"] in emitted:
                return n["name"]
            emitted.add(n["name"])
            d = {"type": k, "name": n["name"]}
            if n.get("aliases"):
                d["aliases"] = list(n["aliases"])
            if k == "enum":
                d["symbols"] = list(n["symbols"])
                if "default" in n:
                    d["default"] = n["default"]
            elif k == "fixed":
                d["size"] = n["size"]
            else:
                fs = []
                for i, f in enumerate(n["fields"]):
                    if field_filter is not None and not field_filter(n["name"], i, f):
                        continue
                    fd = {"name": f["name"], "type": emit(f["type"])}
                    if f.get("aliases"):
                        fd["aliases"] = list(f["aliases"])
                    if "default" in f:
                        fd["default"] = f["default"]
                    fs.append(fd)
                d["fields"] = fs
                if record_hook is not None:
                    record_hook(n["name"], d)
            if "logical" in n:
                d["logicalType"] = n["logical"]
                for a in ("precision", "scale"):
                    if a in n:
                        d[a] = n[a]
            return d
        d = {"type": k}
        if "logical" in n:
            d["logicalType"] = n["logical"]
            for a in ("precision", "scale"):
                if a in n:
                    d[a] = n[a]
            return d
        return k

    return emit(node)
