"""The specification's JSON encoding as Python/JSON structures.  No fastavro imports."""
from .names import deref, branch_name


def encode(node, defs, v, indices, union_type=True):
    """v: normalised value; indices: conform.Indices with the branch per union."""
    n = deref(node, defs)
    k = n["k"]
    if "logical" in n:
        from . import logical

        v = logical.to_underlying(n, v)  # the JSON encoding is that of the underlying type
    if k in ("null", "boolean", "int", "long", "float", "double", "string", "enum"):
        return v
    if k in ("bytes", "fixed"):
        return "".join(chr(b) for b in v)
    if k == "array":
        return [encode(n["items"], defs, x, indices, union_type) for x in v]
    if k == "map":
        return {kk: encode(n["values"], defs, x, indices, union_type) for kk, x in v.items()}
    if k == "record":
        return {f["name"]: encode(f["type"], defs, v[f["name"]], indices, union_type) for f in n["fields"]}
    if k == "union":
        i = indices.next()
        b = n["branches"][i]
        inner = encode(b, defs, v, indices, union_type)
        if deref(b, defs)["k"] == "null" or not union_type:
            return inner
        return {branch_name(b, defs): inner}
    raise AssertionError(k)
