"""Schema resolution by the specification's rules (DESIGN.md A.4), on decoded
writer values.  Three-valued: VALUE(v), ERROR, EITHER(v).  No fastavro imports."""
from .names import deref, default_value

PROMOTE = {("int", "long"), ("int", "float"), ("int", "double"), ("long", "float"), ("long", "double"), ("float", "double"),
           ("string", "bytes"), ("bytes", "string")}
PRIM = {"null", "boolean", "int", "long", "float", "double", "bytes", "string"}


class ResolutionError(Exception):
    pass


class Either(Exception):
    """The incompatibility sits where the datum has nothing (empty array/map)."""


class Undefined(Exception):
    """bytes that are not UTF-8 read as string: outside what the rules define."""


class U:
    """A union value tagged with the branch the writer took."""
    __slots__ = ("i", "v")

    def __init__(self, i, v):
        self.i, self.v = i, v


def tag(node, defs, value, indices):
    """Attach the written branch index to every union value (encoding order)."""
    n = deref(node, defs)
    k = n["k"]
    if k == "union":
        i = indices.next()
        return U(i, tag(n["branches"][i], defs, value, indices))
    if k == "array":
        return [tag(n["items"], defs, x, indices) for x in value]
    if k == "map":
        return {kk: tag(n["values"], defs, x, indices) for kk, x in value.items()}
    if k == "record":
        return {f["name"]: tag(f["type"], defs, value[f["name"]], indices) for f in n["fields"]}
    return value


def untag(v):
    if isinstance(v, U):
        return untag(v.v)
    if isinstance(v, list):
        return [untag(x) for x in v]
    if isinstance(v, dict):
        return {k: untag(x) for k, x in v.items()}
    return v


def names_match(w, r):
    wn, rn = w["name"], r["name"]
    wu, ru = wn.split(".")[-1], rn.split(".")[-1]
    al = r.get("aliases", [])
    return wu == ru or wn in al or wu in al


def same_type(w, wdefs, r, rdefs):
    """'the same type' for picking a reader union branch: same kind and, for named types, matching name."""
    w, r = deref(w, wdefs), deref(r, rdefs)
    if w["k"] != r["k"]:
        return False
    if w["k"] in ("record", "enum", "fixed"):
        return names_match(w, r)
    return True


def promotable(w, wdefs, r, rdefs):
    return (deref(w, wdefs)["k"], deref(r, rdefs)["k"]) in PROMOTE


def resolve(wnode, wdefs, rnode, rdefs, tv, flags=None):
    """tv: tagged writer value.  Returns the reader-side value or raises
    ResolutionError; appends to `flags` when an empty array/map hides an element-type
    incompatibility (the outcome is then EITHER: this value or a resolution error)."""
    if flags is None:
        flags = []
    w = deref(wnode, wdefs)
    r = deref(rnode, rdefs)
    if w["k"] == "union":
        return resolve(w["branches"][tv.i], wdefs, rnode, rdefs, tv.v, flags)
    if r["k"] == "union":
        for b in r["branches"]:
            if same_type(w, wdefs, b, rdefs):
                return resolve(w, wdefs, b, rdefs, tv, flags)
        for b in r["branches"]:
            if promotable(w, wdefs, b, rdefs):
                return resolve(w, wdefs, b, rdefs, tv, flags)
        raise ResolutionError("no reader branch matches")
    wk, rk = w["k"], r["k"]
    if wk in PRIM or rk in PRIM:
        if wk == rk:
            return tv
        if (wk, rk) in PROMOTE:
            if rk in ("float", "double"):
                return float(tv)
            if rk == "long":
                return tv
            if rk == "bytes":
                return tv.encode("utf-8")
            if rk == "string":
                try:
                    return tv.decode("utf-8")
                except UnicodeDecodeError:
                    raise Undefined()
        raise ResolutionError(f"{wk} cannot be read as {rk}")
    if wk != rk:
        raise ResolutionError(f"{wk} cannot be read as {rk}")
    if wk == "enum":
        if not names_match(w, r):
            raise ResolutionError("enum names differ")
        if tv in r["symbols"]:
            return tv
        if "default" in r:
            return r["default"]
        raise ResolutionError("unknown symbol and no enum default")
    if wk == "fixed":
        if not names_match(w, r) or w["size"] != r["size"]:
            raise ResolutionError("fixed mismatch")
        return tv
    if wk == "array":
        if not tv:
            _static(w["items"], wdefs, r["items"], rdefs, flags)
            return []
        return [resolve(w["items"], wdefs, r["items"], rdefs, x, flags) for x in tv]
    if wk == "map":
        if not tv:
            _static(w["values"], wdefs, r["values"], rdefs, flags)
            return {}
        return {k: resolve(w["values"], wdefs, r["values"], rdefs, x, flags) for k, x in tv.items()}
    if wk == "record":
        if not names_match(w, r):
            raise ResolutionError("record names differ")
        out = {}
        wfields = {f["name"]: f for f in w["fields"]}
        used = set()
        for rf in r["fields"]:
            wf = wfields.get(rf["name"])
            if wf is None:
                for a in rf.get("aliases", []):
                    if a in wfields:
                        wf = wfields[a]
                        break
            if wf is not None:
                out[rf["name"]] = resolve(wf["type"], wdefs, rf["type"], rdefs, tv[wf["name"]], flags)
            elif "default" in rf:
                out[rf["name"]] = default_value(rf["type"], rdefs, rf["default"])
            else:
                raise ResolutionError(f"reader field {rf['name']} has no default")
        return out
    raise AssertionError(wk)


def _static(wi, wdefs, ri, rdefs, flags):
    """Empty collection: if the element types could never resolve, the specification
    lets an implementation reject at schema level -> Either."""
    if not _could_resolve(wi, wdefs, ri, rdefs, 0):
        flags.append("empty-collection-with-incompatible-element-types")


def _could_resolve(w, wdefs, r, rdefs, depth):
    w, r = deref(w, wdefs), deref(r, rdefs)
    if depth > 6:
        return True
    if w["k"] == "union":
        return True  # depends on the branch written
    if r["k"] == "union":
        return any(same_type(w, wdefs, b, rdefs) or promotable(w, wdefs, b, rdefs) for b in r["branches"])
    if w["k"] in PRIM or r["k"] in PRIM:
        return w["k"] == r["k"] or (w["k"], r["k"]) in PROMOTE
    if w["k"] != r["k"]:
        return False
    if w["k"] in ("enum", "record"):
        return names_match(w, r)
    if w["k"] == "fixed":
        return names_match(w, r) and w["size"] == r["size"]
    if w["k"] == "array":
        return _could_resolve(w["items"], wdefs, r["items"], rdefs, depth + 1)
    if w["k"] == "map":
        return _could_resolve(w["values"], wdefs, r["values"], rdefs, depth + 1)
    return True


def _bad_utf8_somewhere(v):
    """Does the value hold bytes that are not UTF-8?  (bytes read as string are then outside the rules)"""
    v = v.v if isinstance(v, U) else v
    if isinstance(v, (bytes, bytearray)):
        try:
            bytes(v).decode("utf-8")
            return False
        except UnicodeDecodeError:
            return True
    if isinstance(v, list):
        return any(_bad_utf8_somewhere(x) for x in v)
    if isinstance(v, dict):
        return any(_bad_utf8_somewhere(x) for x in v.values())
    return False


def _reads_bytes_as_string(w, wdefs, r, rdefs, depth=0):
    w, r = deref(w, wdefs), deref(r, rdefs)
    if depth > 8:
        return False
    if w["k"] == "union":
        return any(_reads_bytes_as_string(b, wdefs, r, rdefs, depth + 1) for b in w["branches"])
    if r["k"] == "union":
        return any(_reads_bytes_as_string(w, wdefs, b, rdefs, depth + 1) for b in r["branches"])
    if w["k"] == "bytes" and r["k"] == "string":
        return True
    if w["k"] == r["k"] == "array":
        return _reads_bytes_as_string(w["items"], wdefs, r["items"], rdefs, depth + 1)
    if w["k"] == r["k"] == "map":
        return _reads_bytes_as_string(w["values"], wdefs, r["values"], rdefs, depth + 1)
    if w["k"] == r["k"] == "record":
        wf = {f["name"]: f for f in w["fields"]}
        for rf in r["fields"]:
            cand = [wf.get(rf["name"])] + [wf.get(a) for a in rf.get("aliases", [])]
            for c in cand:
                if c is not None and _reads_bytes_as_string(c["type"], wdefs, rf["type"], rdefs, depth + 1):
                    return True
    return False


def outcome(wnode, wdefs, rnode, rdefs, tv):
    if _bad_utf8_somewhere(untag(tv)) and _reads_bytes_as_string(wnode, wdefs, rnode, rdefs):
        return ("skip", None)
    flags = []
    try:
        v = resolve(wnode, wdefs, rnode, rdefs, tv, flags)
    except Undefined:
        return ("skip", None)
    except ResolutionError as e:
        # an error found while a hidden incompatibility is pending is still an error
        return ("error", str(e))
    return ("either", v) if flags else ("value", v)
