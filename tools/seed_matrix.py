#!/usr/bin/env python3
"""tools/seed_matrix.py [ids...] — for every seeded change under /verif/seeded/<id>/ apply it to /repo, run the
quick check(s) listed in its meta.json ('checks', default: its own property), revert, and record which checks
reported a violation in meta.json['detected_by'].  /repo must be clean."""
import glob, json, os, subprocess, sys

V = os.path.dirname(os.path.dirname(os.path.abspath(__file__)))


def sh(*a, **kw):
    return subprocess.run(a, capture_output=True, text=True, **kw)


REPO = os.environ.get("SEED_REPO", "/repo")  # SEED_REPO=<scratch worktree at /repo HEAD> keeps /repo untouched


def main():
    ids = sys.argv[1:] or sorted(os.path.basename(p) for p in glob.glob(os.path.join(V, "seeded", "*")) if os.path.isdir(p))
    assert sh("git", "-C", REPO, "status", "--porcelain").stdout.strip() == "", f"{REPO} not clean"
    if REPO != "/repo":
        sh("git", "-C", REPO, "checkout", "--detach", sh("git", "-C", "/repo", "rev-parse", "HEAD").stdout.strip())
    for sid in ids:
        d = os.path.join(V, "seeded", sid)
        meta = json.load(open(os.path.join(d, "meta.json")))
        checks = meta.get("checks") or [meta["property"]]
        r = sh("git", "-C", REPO, "apply", os.path.join(d, "patch.diff"))
        if r.returncode:
            print(sid, "PATCH DOES NOT APPLY", r.stderr[:200])
            continue
        det = {}
        try:
            for c in checks:
                env = dict(os.environ, VERIF_EVIDENCE_DIR="/tmp/verif-ev-" + os.path.basename(REPO), VERIF_REPO=REPO)
                p = sh(os.path.join(V, "check"), c, "--tier", "quick", env=env, cwd=V)
                sigs = [l.split("sig=")[1].split(" ")[0] for l in p.stdout.splitlines() if "sig=" in l and "check=" in l]
                det[c] = {"exit": p.returncode, "violation_sigs": sigs[:6]}
        finally:
            sh("git", "-C", REPO, "checkout", "--", ".")
        meta["detected_by"] = sorted(c for c, v in det.items() if v["exit"] == 1)
        meta["check_results"] = det
        json.dump(meta, open(os.path.join(d, "meta.json"), "w"), indent=1)
        print(sid, "detected by", meta["detected_by"] or "NOTHING", {c: v["violation_sigs"][:2] for c, v in det.items()})


main()
