#!/bin/bash
# tools/seedtest.sh <patch.diff> <ID> [<ID>...]  — apply a seeded change to /repo, run quick checks, always revert.
patch="$1"; shift
cd /repo || exit 9
if [ -n "$(git status --porcelain)" ]; then echo "/repo not clean"; exit 9; fi
git apply "$patch" || { echo "patch does not apply"; exit 9; }
trap 'git -C /repo checkout -- . ' EXIT
for id in "$@"; do
  ( cd /verif && VERIF_EVIDENCE_DIR=/tmp/verif-ev ./check "$id" --tier "${TIER:-quick}" 2>&1 | grep -E "VIOLATION|KNOWN|tier=|HARNESS|sig=" | cut -c1-400 | head -${LINES_MAX:-8} ; echo "exit=${PIPESTATUS[0]}" )
done
