#!/bin/bash
# tools/seed_intake.sh <PID> <outdir> <letterA> <letterB>: copy a sub-agent's A/B deliveries to /verif/seeded/<PID>-<letter>,
# confirm each in the scratch worktree (tools/seed_verify.sh) and record the confirmation in meta.json.
pid=$1; out=$2; la=$3; lb=$4
for pair in A:$la B:$lb; do
  src=${pair%%:*}; l=${pair##*:}; d=/verif/seeded/$pid-$l
  [ -f $out/$src/patch.diff ] || { echo "$pid-$l: no patch delivered"; continue; }
  mkdir -p $d; cp $out/$src/patch.diff $out/$src/demo.py $out/$src/meta.json $d/
  v=$(bash /verif/tools/seed_verify.sh $d)
  python3 - "$d" "$v" <<'PY'
import json,sys
d,v=sys.argv[1:3]
m=json.load(open(d+'/meta.json')); m['verified_by_me']=v; m.setdefault('checks',[m['property']])
json.dump(m,open(d+'/meta.json','w'),indent=1)
PY
  echo "$pid-$l: $v"
done
