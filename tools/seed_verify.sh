#!/bin/bash
# tools/seed_verify.sh <seeddir>  (contains patch.diff or patch.rebased.diff, demo.py)
# Confirms in the scratch worktree /tmp/seedverify (at /repo HEAD): patch applies, pinned suite passes with it,
# demo FAILs with it and PASSes without it.
d="$1"; wt=${SEED_WT:-/tmp/seedverify}
p="$d/patch.rebased.diff"; [ -f "$p" ] || p="$d/patch.diff"
cd $wt && git checkout -q -- . && git checkout -q --detach $(git -C /repo rev-parse HEAD) 2>/dev/null
if ! git apply --check "$p" 2>/dev/null; then echo "APPLY=no"; exit 2; fi
git apply "$p"
b=$(python3 /verif/tools/baseline.py $wt | head -1)
( cd $wt && /venv/bin/python "$d/demo.py" >/tmp/seedverify.demo1 2>&1 ); w=$?
git checkout -q -- .
( cd $wt && /venv/bin/python "$d/demo.py" >/tmp/seedverify.demo0 2>&1 ); wo=$?
echo "APPLY=yes patch=$(basename $p) baseline[$b] demo_with_change_exit=$w demo_without_exit=$wo"
