#!/usr/bin/env python3
"""tools/baseline.py [repo_dir]: run the pinned suite in repo_dir and compare with
/root/.vp/BASELINE.json stable_pass. Exit 0 iff every stable_pass test passes."""
import json, os, subprocess, sys, tempfile
import xml.etree.ElementTree as ET

repo = sys.argv[1] if len(sys.argv) > 1 else "/repo"
base = json.load(open("/root/.vp/BASELINE.json"))
want = set(base["stable_pass"])
with tempfile.NamedTemporaryFile(suffix=".xml", delete=False) as t:
    xml = t.name
env = dict(os.environ)
env.pop("FASTAVRO_VERIF", None)
env.pop("PYTHONPATH", None)
p = subprocess.run(["/venv/bin/python", "-m", "pytest", "-ra", "-q", "-p", "no:cacheprovider", "--timeout=900",
                    "--continue-on-collection-errors", f"--junitxml={xml}"], cwd=repo, capture_output=True, text=True, env=env)
passed = set()
for tc in ET.parse(xml).getroot().iter("testcase"):
    ok = not any(ch.tag in ("failure", "error", "skipped") for ch in tc)
    if ok:
        passed.add(f"{tc.get('classname')}::{tc.get('name')}")
os.unlink(xml)
missing = sorted(want - passed)
print(f"stable_pass={len(want)} passed_now={len(passed)} missing={len(missing)}")
for m in missing[:30]:
    print("  NOT PASSING:", m)
sys.exit(1 if missing else 0)
